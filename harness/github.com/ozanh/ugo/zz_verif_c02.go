//go:build verif

package ugo

import (
	"strconv"

	"github.com/ozanh/ugo/internal/verifrt"
)

// C02 program family: each program takes symbolic int parameters (a, b).
var verifC02Progs = [...]string{
	// --- evaluation order
	`param (a, b); x := 1; f := func() { x *= 10; return x }; g := func() { x++; return x }; h := func() { x += 2; return x }; d := {}; d[f()] = [g(), h()]; return [d, x]`,
	`param (a, b); log := []; t := func(n) { log = append(log, n); return n }; r := t(1) + t(2) * t(3) - t(4); return [r, log]`,
	`param (a, b); log := []; t := func(n) { log = append(log, n); return n }; f := func(...x) { return x }; r := f(t(a), t(b), t(3)); return [r, log]`,
	`param (a, b); log := []; t := func(n) { log = append(log, n); return n }; arr := [0, 0, 0]; arr[t(1)] = t(2); m := {}; m[string(t(5))] = [t(6), {k: t(7)}]; return [arr, m, log]`,
	`param (a, b); log := []; t := func(n) { log = append(log, n); return n }; r := t(a) && t(b) || t(9); s := t(0) ? t(1) : t(2); return [r, s, log]`,
	`param (a, b); log := []; t := func(n) { log = append(log, n); return n }; o := {x: {y: 1}}; o.x.y += t(5); o.x["z"] = t(a); return [o, log]`,
	// --- scoping and shadowing
	`param (a, b); x := 1; if a > 0 { x := 2; x++; if b > 0 { x := 3; x += 10 } ; x++ }; return x`,
	`param (a, b); x := a; if true { x := b; if true { x := 7; x++ }; x++ }; return x`,
	`param (a, b); x := 1; f := func() { x := 5; return x }; return [f(), x]`,
	`param (a, b); x := 1; for i := 0; i < 2; i++ { x := x + i + a; x++ }; return x`,
	`param (a, b); if x := a + 1; x > b { return x } else { return -x }`,
	// --- closures capture variables by reference; one fresh variable per executed declaration
	`param (a, b); fs := []; for i := 0; i < 3; i++ { fs = append(fs, func() { return i }) }; return [fs[0](), fs[1](), fs[2]()]`,
	`param (a, b); fs := []; for i := 0; i < 3; i++ { j := i + a; fs = append(fs, func() { j++; return j }) }; return [fs[0](), fs[0](), fs[1](), fs[2]()]`,
	`param (a, b); mk := func(n) { return {inc: func() { n++; return n }, get: func() { return n }} }; c := mk(a); d := mk(b); c.inc(); c.inc(); d.inc(); return [c.get(), d.get()]`,
	`param (a, b); x := a; f := func() { return func() { return func() { x++; return x } } }; g := f()(); g(); x += 10; return [g(), x]`,
	`param (a, b); var f; f = func(n) { if n <= 0 { return 0 }; return n + f(n - 1) }; return f(3) + a`,
	`param (a, b); fs := []; for _, v in [10, 20, 30] { fs = append(fs, func() { return v + a }) }; return [fs[0](), fs[2]()]`,
	`param (a, b); counter := func() { c := 0; return func() { c += b; return c } }; c1 := counter(); c2 := counter(); c1(); c1(); return [c1(), c2()]`,
	// --- call binding: fixed, variadic, spread
	`param (a, b); f := func(x, y) { return [x, y] }; return f(a, b)`,
	`param (a, b); f := func(x, ...y) { return [x, y] }; return [f(a), f(a, b), f(a, b, 3), f(...[a, b]), f(a, ...[b, 4]), f(...[a])]`,
	`param (a, b); f := func(...y) { return y }; return [f(), f(a), f(...[]), f(...[a, b])]`,
	`param (a, b); f := func(x, y) { return x - y }; return [f(...[a, b]), f(a, ...[b])]`,
	`param (a, b); f := func(x, y) { return x }; try { return f(a) } catch e { return [e.Name, e.Message] }`,
	`param (a, b); f := func(x, ...y) { return x }; try { return f() } catch e { return [e.Name, e.Message] }`,
	`param (a, b); f := func(x, y) { return x }; try { return f(...[a, b, 3]) } catch e { return [e.Name, e.Message] }`,
	`param (a, b); f := func(x, ...y) { return x }; try { return f(...[]) } catch e { return [e.Name, e.Message] }`,
	`param (a, b); f := func(x) { return x }; try { return f(...a) } catch e { return [e.Name, e.Message] }`,
	// --- destructuring
	`param (a, b); x, y := [a, b]; p, q, r := [1]; var (u, v); u, v = 5; return [x, y, p, q, r, u, v]`,
	`param (a, b); f := func() { return a, b, 3 }; x, y, z := f(); m := {}; var w; m.k, w = [y, x]; return [x, y, z, m, w]`,
	`param (a, b); x, y := [a, b]; x, y = [y, x]; return [x, y]`,
	// --- constants and iota
	`param (a, b); const (x = iota; y; z); const (p = 1 << iota; q; r); const (_ = iota; s = "v" + iota; t); return [x, y, z, p, q, r, s, t, a]`,
	`param (a, b); const k = 5; f := func() { const k = 7; return k }; const (m = [iota]; n); return [k, f(), m, n, k + a]`,
	`param (a, b); iota := "foo"; const (x = iota; y); return [x, y]`,
	// --- compound assignment, inc/dec
	`param (a, b); x := a; x += b; x -= 1; x *= 2; x /= 3; x %= 7; x <<= 2; x >>= 1; x |= 8; x &= 13; x ^= 5; x &^= 1; x++; x--; return x`,
	`param (a, b); arr := [1, 2, 3]; arr[1] += a; arr[0]++; m := {n: b}; m.n *= 2; m["n"]--; return [arr, m]`,
	// --- selectors, indexing, slicing
	`param (a, b); m := {x: {y: [10, 20, 30]}}; s := "hello"; return [m.x.y[1], m["x"]["y"][a], s[1], s[1:3], [1, 2, 3, 4][a:], m.nope, m.x.nope]`,
	`param (a, b); arr := [1, 2, 3]; try { return arr[a] } catch e { return e.Name }`,
	// --- loops with break and continue
	`param (a, b); s := 0; for i := 0; i < 6; i++ { if i == a { continue }; if i == b { break }; s += i }; return s`,
	`param (a, b); s := 0; for i := 0; i < 3; i++ { for j := 0; j < 3; j++ { if j == a { continue }; if i == b { break }; s += i * 10 + j } }; return s`,
	`param (a, b); s := []; for k, v in "héy" { if k == a { continue }; s = append(s, [k, v]) }; i := 0; for { i++; if i > b || i > 3 { break } }; return [s, i]`,
	`param (a, b); i := 0; for i < 4 { i++; if i == a { break } }; return i`,
	// --- recursion in and out of tail position
	`param (a, b); var fact; fact = func(n, acc) { if n <= 1 { return acc }; return fact(n - 1, acc * n) }; var fact2; fact2 = func(n) { if n <= 1 { return 1 }; return n * fact2(n - 1) }; return [fact(5, 1), fact2(5)]`,
	`param (a, b); var f; f = func(n, ...rest) { if n == 0 { return rest }; return f(n - 1) }; return f(2, 1, 2)`,
	`param (a, b); var sum; sum = func(n, acc) { if n == 0 { return acc }; return sum(...[n - 1, acc + n]) }; return sum(4, a)`,
	`param (a, b); var f; cnt := 0; f = func(n) { cnt++; if n > 0 { f(n - 1) } }; r := f(3); return [r, cnt]`,
	`param (a, b); var f; f = func(n) { if n == 0 { return "done" }; f(n - 1) }; return f(2)`,
	`param (a, b); var (ev, od); ev = func(n) { if n == 0 { return true }; return od(n - 1) }; od = func(n) { if n == 0 { return false }; return ev(n - 1) }; return [ev(4), od(3), ev(a & 3)]`,
	`param (a, b); var f; f = func(n, x) { try { if n == 0 { return x }; return f(n - 1, x + 1) } finally { x = 100 } }; return f(3, a)`,
	// --- misc statements
	`param (a, b); x := undefined; y := x || a; z := y ? "t" : "f"; return [x == undefined, y, z, !a, -a, +b, ^a]`,
	`param (a, b); f := func() {}; g := func() { return }; return [f(), g(), f == f, typeName(f)]`,
	`param (...r); return [len(r), r]`,
	`global gx; param (a, b); gx = a + 1; f := func() { gx += b; return gx }; return [f(), gx]`,
	// --- operations must not write through their operands: arrays that share
	// a backing array with the operand stay as they were (52-57)
	`param (a, b); items := [10, 20, 30]; x, y := items[:1]; return [x, y, items]`,
	`param (a, b); items := [a, b, 3, 4]; s := items[1:2]; p, q, r := s; p = 99; return [p, q, r, s, items]`,
	`param (a, b); items := [a, b, 3, 4]; var (u, v, w); u, v, w = items[:2]; return [u, v, w, items]`,
	`param (a, b); base := [1, 2, 3, 4]; f := func(x, y, z) { return [x, y, z] }; h := base[:2]; r := f(a, ...h); return [r, h, base]`,
	`param (a, b); base := [1, 2, 3]; g := func(p, ...rest) { return [p, rest] }; r := g(...base[:1]); return [r, base]`,
	`param (a, b); base := [[1, 2], [3, 4], [5, 6]]; for k, v in base[:1] { x, y, z := v; base[k] = [z, y, x] }; return base`,
	// --- an error unwinds frames in various states (reused by a statement-position
	// self call, with a pending finally, with results still to be delivered), then
	// execution continues with calls at the same depths (58-62)
	`param (a, b); var f; f = func(n) { if n == 0 { throw "boom" }; f(n - 1) }; g := func() { return 42 }; try { f(3) } catch e { }; return [g(), a]`,
	`param (a, b); var f; f = func(n) { if n == 0 { return 1 / n }; f(n - 1) }; h := func(x) { return x + 1 }; r := []; for i := 0; i < 2; i++ { try { f(2) } catch e { r = append(r, e.Name) }; r = append(r, h(i)) }; return r`,
	`param (a, b); mk := func() { try { throw "t" } finally { a += 1 } }; g := func() { return "g" + string(a) }; try { mk() } catch e { }; return [g(), g()]`,
	`param (a, b); d3 := func() { throw "d3" }; d2 := func() { return d3() + 1 }; d1 := func() { d2(); return 5 }; ok := func(x) { return x * 2 }; v := 0; try { v = d1() } catch e { v = -1 }; return [v, ok(a), ok(b)]`,
	`param (a, b); var f; f = func(n, ...r) { if n == 0 { throw r }; f(n - 1, n, ...r) }; g := func(...r) { return r }; res := undefined; try { f(2) } catch e { res = e.Message }; return [res, g(a), g(a, b), g()]`,
	// --- try, catch and finally share one scope (docs/error-handling.md): names
	// declared in the try body - also names of builtins - are visible in the
	// catch and finally blocks (63-65)
	`param (a, b); r := []; try { len := func(x) { return 42 }; r = append(r, len("abc")); throw "x" } catch e { r = append(r, len("ab")) } finally { r = append(r, len("a")) }; return r`,
	`param (a, b); try { string := func(x) { return a }; throw string(1) } catch e { return [e.Message, string(7)] } finally { a = 9 }`,
	`param (a, b); res := 0; try { v := a + 1; if b > 2 { throw "t" }; res = v } catch e { res = v * 10; w := res + 1; res = w } finally { res += v }; return res`,
}

// VerifC02Prog: the compiled program behaves as the documented source-level
// semantics (refinterp) say, for every value of its parameters.
func VerifC02Prog() {
	p := verifrt.Param("prog")
	src := verifC02Progs[p]
	a := verifrt.Int64("a")
	b := verifrt.Int64("b")
	// small ranges keep loops and indexes inside the unwinding bound
	if verifrt.Param("wide") == 1 {
		verifrt.Assume(a >= -3 && a <= 9 && b >= -3 && b <= 9)
	} else {
		verifrt.Assume(a >= -1 && a <= 4 && b >= -1 && b <= 4)
	}
	args := []Object{Int(a), Int(b)}
	wantVal, wantErr, ri := refRun("global out; "+src, nil, Map{"gx": Int(0)}, args...)
	verifrt.AssertMsg(ri.unsupported == "", "reference-interpreter-supports-program", ri.unsupported)
	if ri.unsupported != "" {
		return
	}
	opts := CompilerOptions{NoOptimize: verifrt.Param("opt") == 0}
	var got verifOutcome
	verifrt.NoPanic("run-no-panic", func() { got = verifRun(src, opts, Map{"gx": Int(0)}, args...) })
	verifrt.AssertMsg(got.compErr == nil, "compiles", src)
	if got.compErr == nil {
		if wantErr != nil {
			n, m := verifErrNameMsg(got.err)
			verifrt.AssertMsg(got.err != nil && n == wantErr.Err.Name && m == wantErr.Err.Message, "same-error", src)
		} else {
			verifrt.AssertMsg(got.err == nil, "no-error", src)
			if got.err == nil {
				verifrt.AssertMsg(verifSameObjectRI(got.val, wantVal), "same-value", src)
			}
		}
	}
	verifrt.Reached("end")
}

// verifSameObjectRI: like verifSameObject but a VM function and a reference
// interpreter function are the same kind of value.
func verifSameObjectRI(got, want Object) bool {
	switch w := want.(type) {
	case *riFunc:
		_, ok := got.(*CompiledFunction)
		return ok
	case Array:
		g, ok := got.(Array)
		if !ok || len(g) != len(w) {
			return false
		}
		for i := range w {
			if !verifSameObjectRI(g[i], w[i]) {
				return false
			}
		}
		return true
	case Map:
		g, ok := got.(Map)
		if !ok || len(g) != len(w) {
			return false
		}
		for k, v := range w {
			x, ok := g[k]
			if !ok || !verifSameObjectRI(x, v) {
				return false
			}
		}
		return true
	}
	return verifSameObject(got, want)
}

// ---------------------------------------------------------------------------
// generated call-binding programs: every (parameters, variadic) x (arguments,
// spread length) combination.

func verifC02CallProgram(np int, variadic bool, nargs int, spread int) string {
	params := ""
	for i := 0; i < np; i++ {
		if i > 0 {
			params += ", "
		}
		if variadic && i == np-1 {
			params += "..."
		}
		params += "p" + strconv.Itoa(i)
	}
	body := "return ["
	for i := 0; i < np; i++ {
		if i > 0 {
			body += ", "
		}
		body += "p" + strconv.Itoa(i)
	}
	body += "]"
	call := ""
	for i := 0; i < nargs; i++ {
		if i > 0 {
			call += ", "
		}
		call += "a + " + strconv.Itoa(i)
	}
	if spread >= 0 {
		if nargs > 0 {
			call += ", "
		}
		call += "...["
		for i := 0; i < spread; i++ {
			if i > 0 {
				call += ", "
			}
			call += "b + " + strconv.Itoa(i)
		}
		call += "]"
	}
	return "param (a, b); f := func(" + params + ") { " + body + " }; try { return f(" + call + ") } catch e { return [e.Name, e.Message] }"
}

// VerifC02Call: params np (0..3), variadic (0/1), nargs (0..3), spread (-1 = none, 0..3).
func VerifC02Call() {
	np := verifrt.Param("np")
	variadic := verifrt.Param("variadic") == 1
	verifrt.Assume(!(variadic && np == 0))
	src := verifC02CallProgram(np, variadic, verifrt.Param("nargs"), verifrt.Param("spread"))
	args := []Object{Int(verifrt.Int64("a")), Int(verifrt.Int64("b"))}
	wantVal, wantErr, ri := refRun("global out; "+src, nil, nil, args...)
	verifrt.AssertMsg(ri.unsupported == "" && wantErr == nil, "reference-interpreter-supports-program", ri.unsupported)
	got := verifRun(src, CompilerOptions{NoOptimize: true}, nil, args...)
	verifrt.AssertMsg(got.compErr == nil && got.err == nil, "compiles-and-runs", src)
	if got.compErr == nil && got.err == nil && wantErr == nil {
		verifrt.AssertMsg(verifSameObjectRI(got.val, wantVal), "same-binding", src)
	}
	verifrt.Reached("end")
}
