//go:build verif

package json

import (
	"bytes"
	"math"
	"strconv"
	"unicode/utf8"

	"github.com/ozanh/ugo"
	"github.com/ozanh/ugo/internal/verifrt"
)

// ---------------------------------------------------------------------------
// refjson: a validator for the documents encoding/json accepts (RFC 8259
// grammar; string bytes >= 0x20 are accepted as they are), and the string
// escaping rules of encoding/json.

type refParser struct {
	b []byte
	i int
}

func (p *refParser) ws() {
	for p.i < len(p.b) && (p.b[p.i] == ' ' || p.b[p.i] == '\t' || p.b[p.i] == '\r' || p.b[p.i] == '\n') {
		p.i++
	}
}

// isOpaqueNumber: the engine renders strconv output for symbolic numbers as an
// opaque placeholder ⟦term⟧; strconv's contract (a valid JSON number for
// finite values) is assumed for it.
func (p *refParser) opaqueNumber() bool {
	const open, close = "\xe2\x9f\xa6", "\xe2\x9f\xa7"
	if !bytes.HasPrefix(p.b[p.i:], []byte(open)) {
		return false
	}
	j := bytes.Index(p.b[p.i:], []byte(close))
	if j < 0 {
		return false
	}
	p.i += j + len(close)
	return true
}

func (p *refParser) value(depth int) bool {
	if depth > 64 || p.i >= len(p.b) {
		return false
	}
	switch c := p.b[p.i]; {
	case c == '{':
		p.i++
		p.ws()
		if p.i < len(p.b) && p.b[p.i] == '}' {
			p.i++
			return true
		}
		for {
			p.ws()
			if !p.str() {
				return false
			}
			p.ws()
			if p.i >= len(p.b) || p.b[p.i] != ':' {
				return false
			}
			p.i++
			p.ws()
			if !p.value(depth + 1) {
				return false
			}
			p.ws()
			if p.i >= len(p.b) {
				return false
			}
			if p.b[p.i] == '}' {
				p.i++
				return true
			}
			if p.b[p.i] != ',' {
				return false
			}
			p.i++
		}
	case c == '[':
		p.i++
		p.ws()
		if p.i < len(p.b) && p.b[p.i] == ']' {
			p.i++
			return true
		}
		for {
			p.ws()
			if !p.value(depth + 1) {
				return false
			}
			p.ws()
			if p.i >= len(p.b) {
				return false
			}
			if p.b[p.i] == ']' {
				p.i++
				return true
			}
			if p.b[p.i] != ',' {
				return false
			}
			p.i++
		}
	case c == '"':
		return p.str()
	case c == 't':
		return p.lit("true")
	case c == 'f':
		return p.lit("false")
	case c == 'n':
		return p.lit("null")
	case c == '-' || (c >= '0' && c <= '9'):
		return p.number()
	case c == 0xe2:
		return p.opaqueNumber()
	}
	return false
}

func (p *refParser) lit(s string) bool {
	if len(p.b)-p.i < len(s) {
		return false
	}
	for k := 0; k < len(s); k++ {
		if p.b[p.i+k] != s[k] {
			return false
		}
	}
	p.i += len(s)
	return true
}

func isHex(c byte) bool {
	return c >= '0' && c <= '9' || c >= 'a' && c <= 'f' || c >= 'A' && c <= 'F'
}

func (p *refParser) str() bool {
	if p.i >= len(p.b) || p.b[p.i] != '"' {
		return false
	}
	p.i++
	for p.i < len(p.b) {
		c := p.b[p.i]
		switch {
		case c == '"':
			p.i++
			return true
		case c == '\\':
			p.i++
			if p.i >= len(p.b) {
				return false
			}
			switch p.b[p.i] {
			case '"', '\\', '/', 'b', 'f', 'n', 'r', 't':
				p.i++
			case 'u':
				if len(p.b)-p.i < 5 {
					return false
				}
				for k := 1; k <= 4; k++ {
					if !isHex(p.b[p.i+k]) {
						return false
					}
				}
				p.i += 5
			default:
				return false
			}
		case c < 0x20:
			return false
		default:
			p.i++
		}
	}
	return false
}

func (p *refParser) digits() bool {
	n := 0
	for p.i < len(p.b) && p.b[p.i] >= '0' && p.b[p.i] <= '9' {
		p.i++
		n++
	}
	return n > 0
}

func (p *refParser) number() bool {
	if p.b[p.i] == '-' {
		p.i++
	}
	if p.i >= len(p.b) {
		return false
	}
	if p.b[p.i] == '0' {
		p.i++
	} else if !p.digits() {
		return false
	}
	if p.i < len(p.b) && p.b[p.i] == '.' {
		p.i++
		if !p.digits() {
			return false
		}
	}
	if p.i < len(p.b) && (p.b[p.i] == 'e' || p.b[p.i] == 'E') {
		p.i++
		if p.i < len(p.b) && (p.b[p.i] == '+' || p.b[p.i] == '-') {
			p.i++
		}
		if !p.digits() {
			return false
		}
	}
	return true
}

func refValid(b []byte) bool {
	p := &refParser{b: b}
	p.ws()
	if !p.value(0) {
		return false
	}
	p.ws()
	return p.i == len(b)
}

const refHex = "0123456789abcdef"

// refEscape: encoding/json's string encoding (HTML escaping optional).
func refEscape(s string, escapeHTML bool) []byte {
	out := []byte{'"'}
	for i := 0; i < len(s); {
		b := s[i]
		if b < utf8.RuneSelf {
			switch {
			case b == '"' || b == '\\':
				out = append(out, '\\', b)
			case b == '\n':
				out = append(out, '\\', 'n')
			case b == '\r':
				out = append(out, '\\', 'r')
			case b == '\t':
				out = append(out, '\\', 't')
			case b < 0x20 || (escapeHTML && (b == '<' || b == '>' || b == '&')):
				out = append(out, '\\', 'u', '0', '0', refHex[b>>4], refHex[b&0xF])
			default:
				out = append(out, b)
			}
			i++
			continue
		}
		c, size := utf8.DecodeRuneInString(s[i:])
		if c == utf8.RuneError && size == 1 {
			out = append(out, '\\', 'u', 'f', 'f', 'f', 'd')
			i += size
			continue
		}
		if c == '\u2028' || c == '\u2029' {
			out = append(out, '\\', 'u', '2', '0', '2', refHex[c&0xF])
			i += size
			continue
		}
		out = append(out, s[i:i+size]...)
		i += size
	}
	return append(out, '"')
}

// ---------------------------------------------------------------------------

// VerifC17Escape: encodeState.string / stringBytes over strings of n
// arbitrary bytes, byte-exact against refEscape.
func VerifC17Escape() {
	n := verifrt.Param("n")
	s := verifrt.String("s", n)
	html := verifrt.Bool("html")
	e := newEncodeState()
	e.string(s, html)
	want := refEscape(s, html)
	verifrt.Assert(bytes.Equal(e.Bytes(), want), "string-escaping")
	e2 := newEncodeState()
	e2.stringBytes([]byte(s), html)
	verifrt.Assert(bytes.Equal(e2.Bytes(), want), "bytes-escaping")
	verifrt.Assert(refValid(e.Bytes()), "escaped-string-is-valid-json")
	verifrt.Reached("end")
}

// VerifC17Accept: valid / Unmarshal accept exactly the documents refValid accepts.
func VerifC17Accept() {
	n := verifrt.Param("n")
	data := verifrt.Bytes("d", n)
	if f := verifrt.Param("first"); f >= 0 {
		verifrt.Assume(int(data[0]) == f)
	}
	want := refValid(data)
	var got bool
	var err error
	var v ugo.Object
	verifrt.NoPanic("decode-no-panic", func() {
		got = valid(data)
		v, err = Unmarshal(data)
	})
	verifrt.Assert(got == want, "valid-agrees-with-reference")
	verifrt.Assert((err == nil) == want, "unmarshal-accepts-exactly-valid-documents")
	if err == nil {
		verifrt.Assert(v != nil, "unmarshal-returns-a-value")
		// the decoded value marshals to a document that decodes to the same value
		// (kind by kind: an empty array stays an array, null stays undefined)
		// (numbers are left out: re-encoding a float parsed from arbitrary digits
		// asks the solver floating-point questions it answers "unknown")
		if !verifHasNumber(v) {
			m, merr := Marshal(v)
			verifrt.Assert(merr == nil && refValid(m), "decoded-value-marshals-to-valid-json")
			if merr == nil {
				v2, err2 := Unmarshal(m)
				verifrt.AssertMsg(err2 == nil && verifSameJSON(v, v2) && verifSameJSON(v2, v), "unmarshal-marshal-unmarshal-is-stable", string(m))
			}
		}
		// Compact and Indent keep a valid document valid
		var cb, ib bytes.Buffer
		verifrt.Assert(compact(&cb, data, false) == nil && refValid(cb.Bytes()), "compact-preserves-validity")
		verifrt.Assert(indentBuffer(&ib, data, "", " ") == nil && refValid(ib.Bytes()), "indent-preserves-validity")
		verifrt.Reached("accepted")
	} else {
		var cb bytes.Buffer
		verifrt.Assert(compact(&cb, data, false) != nil, "compact-rejects-invalid")
	}
	verifrt.Reached("end")
}

// VerifC17Depth: documents nested n levels deep (shape 0: arrays, 1: objects,
// 2: alternating) around one arbitrary byte, with n at the nesting limit of
// encoding/json (10000): valid, Compact, Unmarshal (and Indent, for the shallow ones) accept the
// document iff n <= 10000 and the one-level document around the same byte is
// valid. (Unmarshal is only required to reject: decoding 10000 levels needs
// more interpreter call depth than the engine allows.)
func VerifC17Depth() {
	n := verifrt.Param("n")
	shape := verifrt.Param("shape")
	// the innermost byte is arbitrary for shallow documents and one of three
	// fixed bytes for deep ones (every path re-scans the whole document)
	var b byte
	if n <= 2 {
		b = verifrt.Byte("b")
	} else {
		b = [...]byte{'1', ' ', 'x'}[verifrt.Param("inner")]
	}
	open := func(k int) string {
		if shape == 1 || shape == 2 && k%2 == 1 {
			return `{"k":`
		}
		return "["
	}
	clos := func(k int) string {
		if shape == 1 || shape == 2 && k%2 == 1 {
			return "}"
		}
		return "]"
	}
	var doc []byte
	for k := 0; k < n; k++ {
		doc = append(doc, open(k)...)
	}
	doc = append(doc, b)
	for k := n - 1; k >= 0; k-- {
		doc = append(doc, clos(k)...)
	}
	small := append(append([]byte(open(n-1)), b), clos(n-1)...)
	want := n <= 10000 && refValid(small)
	var got bool
	var cerr, ierr, uerr error
	verifrt.NoPanic("deep-document-no-panic", func() {
		got = valid(doc)
		var cb, ib bytes.Buffer
		cerr = compact(&cb, doc, false)
		if n <= 2 {
			// (Indent loops once per nesting level at every newline: quadratic)
			ierr = indentBuffer(&ib, doc, "", "")
		}
	})
	verifrt.Assert(got == want, "nesting-limit-valid-agrees-with-encoding-json")
	verifrt.Assert((cerr == nil) == want, "nesting-limit-compact")
	verifrt.Assert(n > 2 || (ierr == nil) == want, "nesting-limit-indent")
	if !want {
		// last: a decoder that wrongly accepts recurses beyond the engine's call depth
		verifrt.NoPanic("deep-document-unmarshal-no-panic", func() { _, uerr = Unmarshal(doc) })
	}
	verifrt.Assert(want || uerr != nil, "nesting-limit-unmarshal-rejects")
	verifrt.Reached("end")
}

type verifTextM struct {
	ugo.ObjectImpl
	s string
}

func (t *verifTextM) MarshalText() ([]byte, error) { return []byte(t.s), nil }

func verifLeaf(name string) (ugo.Object, bool) {
	k := verifrt.Choice(name+".k", 16)
	switch k {
	case 0:
		return ugo.Int(verifrt.Int64(name + ".i")), true
	case 1:
		return ugo.Uint(verifrt.Uint64(name + ".u")), true
	case 2:
		return ugo.Float(verifrt.Float64Bits(name + ".f")), true
	case 3:
		return ugo.Char(verifrt.Int32(name + ".c")), true
	case 4:
		return ugo.Bool(verifrt.Bool(name + ".b")), true
	case 5:
		return ugo.String(verifrt.String(name+".s", verifrt.Choice(name+".sl", 3))), true
	case 6:
		return ugo.Bytes(verifrt.Bytes(name+".y", verifrt.Choice(name+".yl", 3))), true
	case 7:
		return ugo.Undefined, true
	case 8:
		return &ugo.Function{Name: "f"}, false
	case 9:
		return &ugo.Error{Name: "E", Message: "m"}, false
	case 10:
		return &ugo.CompiledFunction{}, false
	case 11:
		return &ugo.SyncMap{Value: ugo.Map{"k": ugo.True}}, true
	case 12:
		var inner ugo.Object = ugo.String("p")
		return &ugo.ObjectPtr{Value: &inner}, true
	case 13:
		return &RawMessage{Value: []byte(`{"raw":[1,2]}`)}, true
	case 14:
		return &EncoderOptions{Value: ugo.String("<q>"), Quote: verifrt.Bool(name + ".q"), EscapeHTML: verifrt.Bool(name + ".h")}, true
	}
	return &verifTextM{s: verifrt.String(name+".t", 1)}, true
}

// VerifC17Marshal: Marshal returns an error or a document refValid accepts,
// for values of depth <= 2 with every object type as leaf.
func VerifC17Marshal() {
	shape := verifrt.Param("shape")
	var v ugo.Object
	unrepresentable := false
	switch shape {
	case 0:
		l, ok := verifLeaf("a")
		v, unrepresentable = l, !ok
	case 1:
		l, ok := verifLeaf("a")
		v, unrepresentable = ugo.Array{ugo.True, l}, !ok
	case 2:
		l, ok := verifLeaf("a")
		v, unrepresentable = ugo.Map{"a": l, "b": ugo.Int(1)}, !ok
	case 3:
		l, ok := verifLeaf("a")
		v, unrepresentable = ugo.Map{"x": ugo.Array{l, ugo.Array{}}, "": ugo.Map{}}, !ok
	case 4:
		// two leaves: the second one restricted to a few kinds
		l1, ok1 := verifLeaf("a")
		var l2 ugo.Object
		ok2 := true
		switch verifrt.Choice("b.k", 4) {
		case 0:
			l2 = ugo.Int(verifrt.Int64("b.i"))
		case 1:
			l2 = ugo.String(verifrt.String("b.s", 1))
		case 2:
			l2, ok2 = &ugo.Function{Name: "g"}, false
		default:
			l2 = ugo.Undefined
		}
		v, unrepresentable = ugo.Array{l1, l2}, !ok1 || !ok2
	}
	var out []byte
	var err error
	verifrt.Known("C17-toplevel-unsupported-encodes-empty", shape == 0 && unrepresentable)
	verifrt.Known("C17-unsupported-value-in-container", shape != 0 && unrepresentable)
	verifrt.NoPanic("marshal-no-panic", func() { out, err = Marshal(v) })
	if err == nil {
		verifrt.AssertMsg(refValid(out), "marshal-output-is-valid-json", string(out))
		if !bytes.Contains(out, []byte("\xe2\x9f\xa6")) { // no opaque number rendering inside
			verifrt.Assert(valid(out), "marshal-output-accepted-by-the-module")
		}
		verifrt.Reached("encoded")
	}
	verifrt.ClearKnown()
	verifrt.Reached("end")
}

var verifFloatPool = [...]float64{0, 1.5, -2, 1e21, 1e-7, 123456789, -0.25}

func verifJSONLeaf(name string, maxStr int) ugo.Object {
	switch verifrt.Choice(name+".k", 4) {
	case 0:
		return ugo.String(verifrt.String(name+".s", verifrt.Choice(name+".sl", maxStr+1)))
	case 1:
		return ugo.Bool(verifrt.Bool(name + ".b"))
	case 2:
		return ugo.Float(verifFloatPool[verifrt.Choice(name+".f", len(verifFloatPool))])
	}
	return ugo.Undefined
}

func verifJSONValue(shape int) ugo.Object {
	switch shape {
	case 0:
		return verifJSONLeaf("a", 3)
	case 1:
		return ugo.Array{verifJSONLeaf("a", 2), verifJSONLeaf("b", 1)}
	case 2:
		return ugo.Map{"k": verifJSONLeaf("a", 2), "é<": ugo.Array{verifJSONLeaf("b", 1)}}
	case 3:
		return ugo.Array{ugo.Array{verifJSONLeaf("a", 1)}, ugo.Map{"": verifJSONLeaf("b", 1), "x": ugo.Map{}}, ugo.Array{}}
	}
	return ugo.Map{}
}

func verifHasNumber(v ugo.Object) bool {
	switch x := v.(type) {
	case ugo.Float, ugo.Int, ugo.Uint:
		return true
	case ugo.Array:
		for _, e := range x {
			if verifHasNumber(e) {
				return true
			}
		}
	case ugo.Map:
		for _, e := range x {
			if verifHasNumber(e) {
				return true
			}
		}
	}
	return false
}

func verifSameJSON(a, b ugo.Object) bool {
	switch x := a.(type) {
	case ugo.String:
		y, ok := b.(ugo.String)
		if !ok {
			return false
		}
		// invalid UTF-8 is replaced by U+FFFD on the way out
		return string(x) == string(y) || !utf8.ValidString(string(x))
	case ugo.Array:
		y, ok := b.(ugo.Array)
		if !ok || len(x) != len(y) || (x == nil) != (y == nil) {
			// (a nil array marshals as null, an empty one as [])
			return false
		}
		for i := range x {
			if !verifSameJSON(x[i], y[i]) {
				return false
			}
		}
		return true
	case ugo.Map:
		y, ok := b.(ugo.Map)
		if !ok || len(x) != len(y) || (x == nil) != (y == nil) {
			return false
		}
		for k, v := range x {
			w, ok := y[k]
			if !ok || !verifSameJSON(v, w) {
				return false
			}
		}
		return true
	}
	return ugo.VerifSameObject(a, b)
}

// VerifC17RoundTrip: Unmarshal(Marshal(v)) == v for JSON-representable values.
func VerifC17RoundTrip() {
	v := verifJSONValue(verifrt.Param("shape"))
	var back ugo.Object
	var err1, err2 error
	var out []byte
	verifrt.NoPanic("roundtrip-no-panic", func() {
		out, err1 = Marshal(v)
		if err1 == nil {
			back, err2 = Unmarshal(out)
		}
	})
	verifrt.Assert(err1 == nil && err2 == nil, "representable-value-marshals-and-unmarshals")
	if err1 == nil && err2 == nil {
		verifrt.AssertMsg(verifSameJSON(v, back), "unmarshal-of-marshal-is-identity", string(out))
	}
	verifrt.Reached("end")
}

func verifHexVal(c byte) int {
	switch {
	case c >= '0' && c <= '9':
		return int(c - '0')
	case c >= 'a' && c <= 'f':
		return int(c-'a') + 10
	}
	return int(c-'A') + 10
}

// VerifC17Unquote: Unmarshal of a JSON string built from k units (a printable
// ASCII byte, a simple escape, or a \uXXXX escape with four arbitrary hex
// digits) yields the string encoding/json defines: escapes decoded, a valid
// surrogate pair combined, every unpaired surrogate replaced by U+FFFD
// without consuming what follows.
func VerifC17Unquote() {
	k := verifrt.Param("units")
	doc := []byte{'"'}
	type unit struct {
		isU  bool
		code rune
	}
	var units []unit
	for i := 0; i < k; i++ {
		switch verifrt.Choice("kind", 3) {
		case 0:
			c := verifrt.Byte("lit")
			verifrt.Assume(c >= 0x20 && c < 0x7f && c != '"' && c != '\\')
			doc = append(doc, c)
			units = append(units, unit{code: rune(c)})
		case 1:
			esc := [...]byte{'"', '\\', '/', 'b', 'f', 'n', 'r', 't'}
			dec := [...]rune{'"', '\\', '/', '\b', '\f', '\n', '\r', '\t'}
			j := verifrt.Choice("esc", len(esc))
			doc = append(doc, '\\', esc[j])
			units = append(units, unit{code: dec[j]})
		default:
			// the high byte of the code unit is one of the interesting
			// boundaries, the low byte is arbitrary (rendered through a
			// digit table, so it stays one SMT term per digit)
			highs := [...]int{0xd8, 0xdb, 0xdc, 0xdf, 0x00, 0xe0, 0xd7, 0xff}
			hi := highs[verifrt.Choice("hi", len(highs))]
			lo := int(verifrt.Byte("lo"))
			code := hi<<8 | lo
			const digits = "0123456789abcdef"
			const upper = "0123456789ABCDEF"
			h := [4]byte{digits[hi>>4], upper[hi&15], digits[lo>>4], upper[lo&15]}
			doc = append(doc, '\\', 'u', h[0], h[1], h[2], h[3])
			units = append(units, unit{isU: true, code: rune(code)})
		}
	}
	doc = append(doc, '"')
	var want []byte
	for i := 0; i < len(units); i++ {
		r := units[i].code
		if units[i].isU && r >= 0xd800 && r < 0xe000 {
			if r < 0xdc00 && i+1 < len(units) && units[i+1].isU && units[i+1].code >= 0xdc00 && units[i+1].code < 0xe000 {
				r = (r-0xd800)<<10 | (units[i+1].code - 0xdc00) + 0x10000
				i++
			} else {
				r = 0xfffd
			}
		}
		want = utf8.AppendRune(want, r)
	}
	var v ugo.Object
	var err error
	verifrt.NoPanic("unmarshal-no-panic", func() { v, err = Unmarshal(doc) })
	verifrt.Assert(err == nil, "string-document-accepted")
	if err == nil {
		s, ok := v.(ugo.String)
		verifrt.Assert(ok, "string-document-yields-string")
		if ok {
			verifrt.AssertMsg(string(s) == string(want), "unquoted-string-value", string(doc))
		}
	}
	verifrt.Reached("end")
}

// VerifC19JSON: callable number "idx" of the json module.
func VerifC19JSON() {
	_, f := ugo.VerifModuleCallable(Module, verifrt.Param("idx"))
	verifrt.Assume(f != nil)
	ugo.VerifCallTotal(f, verifrt.Param("nargs"), verifrt.Param("kinds"))
}

// ---------------------------------------------------------------------------
// K7: numbers, byte for byte

// refNumber: the bytes encoding/json writes for a number: integers in
// decimal, floats by the ES6 number-to-string rule ('e' form below 1e-6 and
// from 1e21 on, exponent without padding), NaN and infinities unsupported.
func refNumber(v ugo.Object) ([]byte, bool) {
	switch x := v.(type) {
	case ugo.Int:
		return strconv.AppendInt(nil, int64(x), 10), true
	case ugo.Uint:
		return strconv.AppendUint(nil, uint64(x), 10), true
	case ugo.Char:
		return strconv.AppendInt(nil, int64(x), 10), true
	case ugo.Float:
		f := float64(x)
		if f != f || f > math.MaxFloat64 || f < -math.MaxFloat64 {
			return nil, false
		}
		a := f
		if a < 0 {
			a = -a
		}
		verb := byte('f')
		if a != 0 && (a < 1e-6 || a >= 1e21) {
			verb = 'e'
		}
		b := strconv.AppendFloat(nil, f, verb, -1, 64)
		if n := len(b); verb == 'e' && n >= 4 && b[n-4] == 'e' && b[n-3] == '-' && b[n-2] == '0' {
			b = append(b[:n-2], b[n-1])
		}
		return b, true
	}
	return nil, false
}

var verifNumberPool = [...]float64{0, 1e-7, 1e-6, 9.99e-7, 1.5e-9, 1e-10, 1e21, 9.999e20, 1e22, -1e21, -1e-7, 123456789, 0.1, -2.5e-8, 1e100, 5e-324}

// VerifC17Number: Marshal writes a number exactly as encoding/json does, for
// every int, uint, char and float (symbolic at full width: the engine's
// rendering of a symbolic number carries verb, precision, bit size, base and
// signedness, so two renderings are equal exactly when strconv was asked the
// same question about the same value) and for concrete floats around the
// notation boundaries (real strconv output incl. the exponent clean-up);
// alone, quoted through EncoderOptions, and inside containers.
func VerifC17Number() {
	var v ugo.Object
	switch verifrt.Choice("k", 5) {
	case 0:
		v = ugo.Int(verifrt.Int64("i"))
	case 1:
		v = ugo.Uint(verifrt.Uint64("u"))
	case 2:
		v = ugo.Char(verifrt.Int32("c"))
	case 3:
		v = ugo.Float(verifrt.Float64Bits("f"))
	default:
		f := verifNumberPool[verifrt.Choice("p", len(verifNumberPool))]
		if verifrt.Bool("neg") {
			f = -f
		}
		v = ugo.Float(f)
	}
	num, ok := refNumber(v)
	var in ugo.Object
	var want []byte
	switch verifrt.Param("shape") {
	case 0:
		in, want = v, num
	case 1:
		in = &EncoderOptions{Value: v, Quote: true}
		want = append(append([]byte{'"'}, num...), '"')
	case 2:
		in = ugo.Array{v, ugo.Undefined}
		want = append(append([]byte{'['}, num...), []byte(",null]")...)
	default:
		in = ugo.Map{"n": v}
		want = append(append([]byte(`{"n":`), num...), '}')
	}
	var out []byte
	var err error
	verifrt.NoPanic("marshal-no-panic", func() { out, err = Marshal(in) })
	if !ok {
		verifrt.Assert(err != nil, "nan-and-infinities-are-errors")
	} else {
		verifrt.Assert(err == nil, "finite-number-marshals")
		if err == nil {
			verifrt.AssertMsg(bytes.Equal(out, want), "number-bytes-as-encoding-json", string(out)+" want "+string(want))
		}
	}
	verifrt.Reached("end")
}
