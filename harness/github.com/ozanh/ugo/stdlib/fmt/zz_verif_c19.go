//go:build verif

package fmt

import (
	"github.com/ozanh/ugo"
	"github.com/ozanh/ugo/internal/verifrt"
)

// VerifC19Fmt: callable number "idx" of the fmt module.
func VerifC19Fmt() {
	_, f := ugo.VerifModuleCallable(Module, verifrt.Param("idx"))
	verifrt.Assume(f != nil)
	ugo.VerifCallTotal(f, verifrt.Param("nargs"), verifrt.Param("kinds"))
}
