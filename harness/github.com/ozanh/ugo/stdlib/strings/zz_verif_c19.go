//go:build verif

package strings

import (
	"github.com/ozanh/ugo"
	"github.com/ozanh/ugo/internal/verifrt"
)

// VerifC19Strings: callable number "idx" of the strings module.
func VerifC19Strings() {
	name, f := ugo.VerifModuleCallable(Module, verifrt.Param("idx"))
	verifrt.Assume(f != nil)
	verifrt.Known("C19-strings-huge-count", name == "Repeat" || name == "PadLeft" || name == "PadRight")
	ugo.VerifCallTotal(f, verifrt.Param("nargs"), verifrt.Param("kinds"))
	verifrt.ClearKnown()
}
