//go:build verif

package ugo

import (
	"strings"

	"github.com/ozanh/ugo/internal/verifrt"
)

// In every program CALL(f, args...) is replaced by f(...args) for the in-script
// variant and by via(f, args...) for the from-Go variant.
var verifC14Progs = [...]string{
	// 0: closure over a local, variadic packing
	`param (a, b)
counter := 0
fn := func(x, ...rest) { counter += x; return [x, rest, counter] }
r := [CALL(fn, a), CALL(fn, a, b, 3), CALL(fn, b)]
return [r, counter]`,
	// 1: recursion (also in tail position)
	`param (a, b)
var fact
fact = func(n) { if n <= 1 { return 1 }; return n * fact(n - 1) }
var loop
loop = func(n, acc) { if n <= 0 { return acc }; return loop(n - 1, acc + n) }
return [CALL(fact, a & 7), CALL(loop, b & 7, 0)]`,
	// 2: thrown errors propagate to the caller
	`param (a, b)
thrower := func(x) { if x > 2 { throw "big" }; return 10 / x }
r := []
for v in [a, b, 1] {
	try { r = append(r, CALL(thrower, v)) } catch e { r = append(r, e.Name + ":" + e.Message) }
}
return r`,
	// 3: imports are shared with the parent run
	`param (a, b)
imp := func() { return import("a").inc() }
r := [CALL(imp), CALL(imp)]
m := import("a")
r = append(r, m.get(), CALL(imp), m.get())
return r`,
	// 4: globals
	`global g
param (a, b)
setg := func(x) { g = g + x; return g }
r := [CALL(setg, a), CALL(setg, b)]
return [r, g]`,
	// 5: different closures alternate on pooled VMs
	`param (a, b)
mk := func(n) { return func(x) { n += x; return n } }
f1 := mk(a)
f2 := mk(b)
return [CALL(f1, 1), CALL(f2, 2), CALL(f1, 3), CALL(f2, 4), f1(0), f2(0)]`,
	// 6: nested Go calls
	`param (a, b)
depth := 0
inner := func(x) { depth++; return x * 2 }
outer := func(x) { return CALL(inner, x) + CALL(inner, x + 1) }
return [CALL(outer, a), depth]`,
	// 7: try/finally inside the function, error from finally
	`param (a, b)
log := []
fn := func(x) { try { if x == 1 { return "r" }; if x == 2 { throw "t" }; return x } finally { log = append(log, x); if x == 3 { throw "fin" } } }
r := []
for v in [a & 3, b & 3] {
	try { r = append(r, CALL(fn, v)) } catch e { r = append(r, e.Message) }
}
return [r, log]`,
	// 8: function value captured from an enclosing function and a parameter of the callee
	`param (a, b)
mk := func(base) { helper := func(y) { return base + y }; return func(x, f) { return f(x) + helper(x) } }
fn := mk(a)
return [CALL(fn, b, func(z) { return z * a }), CALL(fn, 1, func(z) { return z })]`,
	// 9-12: SEQ(f, list) invokes f once per argument tuple of list on ONE
	// Invoker (one child VM re-run several times, with failing invocations in
	// between) and collects values and "err:Name:Message" strings
	// 9: self call as last statement with the value discarded, error from a nested frame
	`param (a, b)
SEQDEF
boom := func() { throw "boom" }
var f
f = func(n) { if n == 0 { return 5 }; if n == 1 { boom() }; f(n - 1) }
return SEQ(f, [[2], [0], [a & 3], [b & 3], [0]])`,
	// 10: closure state across invocations
	`param (a, b)
SEQDEF
c := 0
f := func(x) { c += x; if x == 3 { throw "three" }; return c }
r := SEQ(f, [[a], [3], [b], [1]])
return [r, c]`,
	// 11: try/finally, variadic packing and a runtime error inside the callee
	`param (a, b)
SEQDEF
log := []
f := func(x, ...rest) { try { if x == 2 { return 1 / (x - 2) }; return [x, rest] } finally { log = append(log, x) } }
r := SEQ(f, [[a, 1], [2], [b], [0, 1, 2]])
return [r, log]`,
	// 12: deep recursion inside one invocation, then normal invocations (frame overflow is not compared: a child VM has its own 1024 frames)
	`param (a, b)
SEQDEF
var g
g = func(n) { if n == 0 { return 0 }; return 1 + g(n - 1) }
return SEQ(g, [[a & 7], [300], [b & 7], [3]])`,
	// 13: the callee keeps and mutates its variadic array; the Go caller re-uses its argument buffer
	`param (a, b)
SEQDEF
keep := []
f := func(x, ...rest) { keep = append(keep, rest); if len(rest) > 0 { rest[0] = x * 10 }; return len(rest) }
lists := [[1, a, b], [2, b], [3], [4, 7, 8, 9]]
r := SEQ(f, lists)
return [r, keep, lists]`,
	// 14: a Go function called by the callee panics; the callee's own try/catch/finally handles it (recovery is on)
	`param (a, b)
log := []
fn := func(x) { try { if x == 1 { gopanic(x) }; return "quiet" } catch e { log = append(log, "recovered"); return "c" + string(x) } finally { log = append(log, x) } }
wrap := func(x) { r := CALL(fn, x); return [r, len(log)] }
return [CALL(fn, a & 1), CALL(fn, 1), CALL(wrap, b & 1), log]`,
}

func verifC14Modules() *ModuleMap {
	mm := NewModuleMap()
	mm.AddSourceModule("a", []byte(`n := 0; return {inc: func() { n++; return n }, get: func() { return n }}`))
	return mm
}

const verifC14SeqS = `seqS := func(f, list) { r := []; for args in list { try { r = append(r, f(...args)) } catch e { r = append(r, "err:" + e.Name + ":" + e.Message) } }; return r }`

func verifC14Rewrite(src string, fromGo bool) string {
	if fromGo {
		src = strings.ReplaceAll(src, "SEQDEF", "")
		src = strings.ReplaceAll(src, "SEQ(", "seq(")
		return strings.ReplaceAll(src, "CALL(", "via(")
	}
	src = strings.ReplaceAll(src, "SEQDEF", verifC14SeqS)
	src = strings.ReplaceAll(src, "SEQ(", "seqS(")
	// CALL(f, a, b) -> f(a, b); CALL(f) -> f()
	out := ""
	for {
		i := strings.Index(src, "CALL(")
		if i < 0 {
			return out + src
		}
		out += src[:i]
		rest := src[i+5:]
		j := 0
		for j < len(rest) && rest[j] != ',' && rest[j] != ')' {
			j++
		}
		out += rest[:j] + "("
		if rest[j] == ',' {
			j++
			for rest[j] == ' ' {
				j++
			}
		}
		src = rest[j:]
	}
}

// VerifC14Invoke: the script run with calls from Go through an Invoker
// (mode 0: Acquire/Invoke/Release on the pool, 1: Invoke without the pool,
// 2: one Acquire, two Invokes of which the first result is dropped... no:
// one Acquire per call site but released only after a second, discarded,
// invocation of a no-op function) equals the script run with in-script calls.
func VerifC14Invoke() {
	src := verifC14Progs[verifrt.Param("prog")]
	mode := verifrt.Param("mode")
	a, b := Int(verifrt.Int64("a")), Int(verifrt.Int64("b"))
	verifrt.Assume(a >= -1 && a <= 9 && b >= -1 && b <= 9)
	via := &Function{Name: "via", ValueEx: func(c Call) (Object, error) {
		if c.Len() < 1 {
			return nil, ErrWrongNumArguments.NewError("want>=1 got=0")
		}
		args := make([]Object, 0, c.Len()-1)
		for i := 1; i < c.Len(); i++ {
			args = append(args, c.Get(i))
		}
		inv := NewInvoker(c.VM(), c.Get(0))
		switch mode {
		case 0:
			inv.Acquire()
			defer inv.Release()
		case 2:
			// the pool hands back a VM that another function used before
			other := NewInvoker(c.VM(), c.Get(0))
			other.Acquire()
			other.Release()
			inv.Acquire()
			defer inv.Release()
		}
		return inv.Invoke(args...)
	}}
	seq := &Function{Name: "seq", ValueEx: func(c Call) (Object, error) {
		if c.Len() != 2 {
			return nil, ErrWrongNumArguments.NewError("want=2")
		}
		list, ok := c.Get(1).(Array)
		if !ok {
			return nil, NewArgumentTypeError("2nd", "array", c.Get(1).TypeName())
		}
		inv := NewInvoker(c.VM(), c.Get(0))
		if mode != 1 {
			inv.Acquire()
			defer inv.Release()
		}
		r := Array{}
		buf := make([]Object, 0, 8) // one argument buffer re-used for every invocation
		for _, t := range list {
			targs, _ := t.(Array)
			buf = append(buf[:0], targs...)
			args := buf
			v, err := inv.Invoke(args...)
			if err != nil {
				n, m := verifErrNameMsg(err)
				r = append(r, String("err:"+n+":"+m))
				continue
			}
			r = append(r, v)
		}
		return r, nil
	}}
	run := func(fromGo bool) verifOutcome {
		gopanic := &Function{Name: "gopanic", Value: func(args ...Object) (Object, error) {
			var arr []int
			return Int(arr[len(args)+2]), nil // index out of range: a Go panic
		}}
		g := Map{"g": Int(100), "via": via, "seq": seq, "gopanic": gopanic}
		s := "global (via, seq, gopanic); " + verifC14Rewrite(src, fromGo)
		bc, err := Compile([]byte(s), CompilerOptions{ModuleMap: verifC14Modules(), NoOptimize: verifrt.Param("opt") == 0})
		if err != nil {
			return verifOutcome{compErr: err}
		}
		val, rerr := NewVM(bc).SetRecover(true).Run(g, a, b)
		o := verifOutcome{val: val, err: rerr}
		if gv, ok := g["g"]; ok {
			o.out = gv.String()
		}
		return o
	}
	var inScript, fromGo verifOutcome
	verifrt.NoPanic("run-no-panic", func() {
		inScript = run(false)
		fromGo = run(true)
	})
	verifrt.AssertMsg(inScript.compErr == nil && fromGo.compErr == nil, "compiles", verifC14Rewrite(src, false))
	verifrt.AssertMsg(verifSameOutcome(inScript, fromGo), "invoke-from-go-equals-in-script-call", src)
	verifrt.Reached("end")
}
