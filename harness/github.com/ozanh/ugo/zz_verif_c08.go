//go:build verif

package ugo

import (
	"fmt"

	"github.com/ozanh/ugo/internal/verifrt"
)

var verifC08Progs = [...]string{
	// 0: closures and constants
	`param a; mk := func(n) { return func(x) { n += x; return n } }; f := mk(a); return [f(1), f(2), [1, 2, 3], {k: "v"}]`,
	// 1: source module with state
	`param a; m := import("src1"); m.add(a); return [m.get(), import("src1").get()]`,
	// 2: builtin module: mutate top-level and nested attributes
	`param a; cfg := import("cfg"); cfg.limits.max = a; cfg.list[0] = a; cfg.name = "changed"; cfg.top = a; return [cfg.limits.max, cfg.list, cfg.name, cfg.top, cfg.fn(a)]`,
	// 3: thrown and formatted error with a trace through a module function
	`param a
m := import("src2")
other := import("src1")
f := func(x) {
	return m.div(x)
}
return f(a)`,
	// 4: callback through pooled child VMs, error inside the callback
	`param a; r := callback(func(x) { return 10 / (x - 1) }, a); return r`,
	// 5: caught error formatted inside the script, module imported inside a callback
	`param a; try { return import("src2").div(a) } catch e { return string(e) + callback(func(x) { return import("src1").get() }, a) }`,
	// 6: throw statements in functions without free variables (shared constants), caught and formatted with the trace
	`param a
f := func(x) {
	if x > 1 { throw "big:" + string(x) }
	if x < 0 { throw error("neg") }
	return x
}
try { return f(a) } catch e { return sprintf("%+v|%v", e, e) }`,
	// 7: uncaught throws at different sites of main, of a function constant and of a module function
	`param a
m := import("src3")
if a == 1 { throw "one" }
g := func(x) {
	throw sprintf("g%d", x)
}
if a == 2 { g(a) }
if a == 3 {
	try { g(a) } finally { m.note(a) }
}
return m.thrower(a)`,
	// 8: iterators and builtins over constants, in-place sort, bytes mutation, slices
	`param a; s := 0; for k, v in {x: 1, y: 2} { s += v }; for c in "héllo" { s += int(c) }; arr := [3, 1, 2]; sort(arr); b := bytes("ab"); b[0] = a & 255; return [s, arr, b, sortReverse([a, 1]), repeat("ab", 2), [1, 2, 3][:2], "abc"[1:], copy([1, [2]])]`,
	// 9: tail calls, spread, destructuring, variadic packing, const functions
	`param a
var f
f = func(n, acc) { return n <= 0 ? acc : f(n - 1, acc + n) }
x, y := [a, 2]
g := func(...v) { v[0] = 9; return v }
const h = func(z) { return z + 1 }
lst := [x, y]
return [f(5, 0), g(...lst), lst, h(y), globals() == undefined]`,
	// 10: one VM is aborted while a pooled child VM runs its callback; the
	// other VM on the same Bytecode uses the pool afterwards
	`param a
if a > 0 {
	return callback(func(x) { abortvm(); for i := 0; i < 50; i++ { }; return x }, a)
}
return [callback(func(x) { return x + 1 }, a), callback(func(x) { return x * 2 }, a)]`,
	// 11: Go modules whose value is not a map (custom Importables returning an
	// array, a sync map, bytes): every Copier value is private per VM
	`param a
arr := import("arrmod")
arr[0] = a
arr[1].k = a
sm := import("syncmod")
sm.k = a
b := import("bytesmod")
b[0] = a & 255
return [arr, import("arrmod"), sm, b, import("bytesmod")]`,
}

// verifObjModule: an Importable returning a ready Object.
type verifObjModule struct{ v Object }

func (m *verifObjModule) Import(string) (any, error) { return m.v, nil }

func verifC08Modules() *ModuleMap {
	mm := NewModuleMap()
	mm.AddSourceModule("src1", []byte(`v := 0; return {add: func(x) { v += x }, get: func() { return v }}`))
	mm.AddSourceModule("src2", []byte(`helper := func(x) {
	return 100 / x
}
return {div: func(x) { return helper(x) }}`))
	mm.AddSourceModule("src3", []byte(`notes := []
return {thrower: func(x) {
	if x > 5 { throw "mod:" + string(x) }
	return [x, notes]
}, note: func(x) { notes = append(notes, x) }}`))
	mm.AddBuiltinModule("cfg", map[string]Object{
		"limits": Map{"max": Int(10)},
		"list":   Array{Int(1), Int(2)},
		"name":   String("orig"),
		"top":    Int(0),
		"fn": &Function{Name: "fn", Value: func(args ...Object) (Object, error) {
			return Int(len(args)), nil
		}},
	})
	mm.Add("arrmod", &verifObjModule{v: Array{Int(1), Map{"k": Int(2)}}})
	mm.Add("syncmod", &verifObjModule{v: &SyncMap{Value: Map{"k": Int(3)}}})
	mm.Add("bytesmod", &verifObjModule{v: Bytes{7, 8}})
	return mm
}

func verifC08Globals() Map {
	return Map{"abortvm": &Function{Name: "abortvm", ValueEx: func(c Call) (Object, error) {
		c.VM().Abort()
		return Undefined, nil
	}}, "callback": &Function{Name: "callback", ValueEx: func(c Call) (Object, error) {
		if c.Len() != 2 {
			return nil, ErrWrongNumArguments.NewError("want=2")
		}
		inv := NewInvoker(c.VM(), c.Get(0))
		inv.Acquire()
		defer inv.Release()
		return inv.Invoke(c.Get(1))
	}}}
}

type verifC08Out struct {
	val Object
	err error
	msg string
}

func verifC08Run(bc *Bytecode, a Object) verifC08Out {
	val, err := NewVM(bc).SetRecover(true).Run(verifC08Globals(), a)
	o := verifC08Out{val: val, err: err}
	if err != nil {
		// formatting an error resolves its stack trace through the shared FileSet
		o.msg = fmt.Sprintf("%+v", err)
	}
	return o
}

func verifC08Same(x, y verifC08Out) bool {
	return verifSameError(x.err, y.err) && x.msg == y.msg && (x.err != nil || verifSameObject(x.val, y.val))
}

// VerifC08Shared: two VMs run one Bytecode (one after the other, under the
// frozen-object monitor on everything reachable from the Bytecode and from the
// module map): no run writes to shared state, so every interleaving of the two
// is race free and equivalent to the solo runs; each run returns what it
// returns alone on a freshly compiled Bytecode.
func VerifC08Shared() {
	src := "global (callback, abortvm); " + verifC08Progs[verifrt.Param("prog")]
	mm := verifC08Modules()
	opts := CompilerOptions{ModuleMap: mm, NoOptimize: verifrt.Param("opt") == 0}
	shared, err := Compile([]byte(src), opts)
	verifrt.Assert(err == nil, "compiles")
	if err != nil {
		return
	}
	a1 := Int(verifrt.Int64("a1"))
	a2 := Int(verifrt.Int64("a2"))
	// solo reference runs, each on its own compilation and module map
	solo := func(a Object) verifC08Out {
		bc, err := Compile([]byte(src), CompilerOptions{ModuleMap: verifC08Modules(), NoOptimize: verifrt.Param("opt") == 0})
		if err != nil {
			return verifC08Out{err: err}
		}
		return verifC08Run(bc, a)
	}
	w1, w2 := solo(a1), solo(a2)
	verifrt.Freeze(shared, mm)
	var g1, g2 verifC08Out
	verifrt.Known("C08-lastfile-cache-write", verifrt.Param("prog") == 3 || verifrt.Param("prog") == 5)
	verifrt.NoPanic("shared-runs-no-panic", func() {
		g1 = verifC08Run(shared, a1)
		g2 = verifC08Run(shared, a2)
	})
	verifrt.Unfreeze()
	verifrt.ClearKnown()
	verifrt.Assert(verifC08Same(g1, w1), "first-run-equals-solo-run")
	verifrt.Assert(verifC08Same(g2, w2), "second-run-equals-solo-run")
	verifrt.Reached("end")
}

// VerifC08Corpus: the shared program corpus under the same non-interference
// check: two VMs on one Bytecode, nothing reachable from it is written, each
// run equals its solo run.
func VerifC08Corpus() {
	verifrt.Assert(VerifCorpusLen() == verifrt.Param("len"), "job-table-covers-the-corpus")
	src, args := VerifCorpus(verifrt.Param("prog"))
	noopt := verifrt.Param("opt") == 0
	shared, err := Compile([]byte(src), CompilerOptions{NoOptimize: noopt})
	verifrt.AssertMsg(err == nil, "compiles", src)
	if err != nil {
		return
	}
	run := func(bc *Bytecode) verifOutcome { return verifRunBC(bc, Map{"gx": Int(0)}, args...) }
	soloBC, _ := Compile([]byte(src), CompilerOptions{NoOptimize: noopt})
	want := run(soloBC)
	verifrt.Freeze(shared)
	var g1, g2 verifOutcome
	verifrt.NoPanic("shared-runs-no-panic", func() {
		g1 = run(shared)
		g2 = run(shared)
	})
	verifrt.Unfreeze()
	verifrt.AssertMsg(verifSameOutcome(g1, want), "first-run-equals-solo-run", src)
	verifrt.AssertMsg(verifSameOutcome(g2, want), "second-run-equals-solo-run", src)
	verifrt.Reached("end")
}
