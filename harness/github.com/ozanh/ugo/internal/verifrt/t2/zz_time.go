//go:build verif

// Package time (t2): a type whose package-qualified name, time.Time, is the
// same as that of other packages' types although the types are distinct.
package time

type Time struct{ N int }

type Duration int64
