//go:build verif

// Package verifrt is the intrinsic package of the symgo harnesses.
//
// In the symbolic engine every function below is intercepted: inputs become
// SMT variables, Assume/Assert become solver queries. Compiled natively (this
// file) the same harness replays one witness: inputs are read, in call order,
// from the witness selected by Replay, and assertion outcomes are recorded.
package verifrt

import (
	"encoding/json"
	"fmt"
	"math"
	"os"
	"reflect"
	"runtime"
	"runtime/debug"
	"testing"
	"time"
)

type input struct {
	Name  string `json:"name"`
	Kind  string `json:"kind"`
	Value uint64 `json:"value"`
}

type witness struct {
	Pkg     string           `json:"pkg"`
	Harness string           `json:"harness"`
	Params  map[string]int64 `json:"params"`
	Event   string           `json:"event"`
	ID      string           `json:"id"`
	Inputs  []input          `json:"inputs"`
}


type failRec struct {
	ID    string   `json:"id"`
	Known []string `json:"known,omitempty"`
	Msg   string   `json:"msg,omitempty"`
}

type result struct {
	Idx      int       `json:"idx"`
	Fails    []failRec `json:"fails"`
	Reached  []string  `json:"reached"`
	Panic    string    `json:"panic,omitempty"`
	Mismatch string    `json:"mismatch,omitempty"`
	Skipped  bool      `json:"skipped,omitempty"`
	Notes    []string  `json:"notes,omitempty"`
}

var allocBudget int64

var (
	cur    *witness
	pos    int
	res    *result
	known  []string
)

type skip struct{}
type mismatch struct{ msg string }

func pop(name, kind string) uint64 {
	if cur == nil {
		panic("verifrt: no witness selected (harness run outside Replay)")
	}
	if pos >= len(cur.Inputs) {
		// inputs created after the recorded event are unconstrained: any value does
		pos++
		return 0
	}
	in := cur.Inputs[pos]
	pos++
	if in.Name != name || in.Kind != kind {
		panic(mismatch{fmt.Sprintf("input %d is %s (%s), harness asked for %s (%s)", pos-1, in.Name, in.Kind, name, kind)})
	}
	return in.Value
}

func Param(name string) int {
	if cur == nil {
		panic("verifrt: no witness selected")
	}
	return int(cur.Params[name])
}

func Bool(name string) bool           { return pop(name, "bool") != 0 }
func Int64(name string) int64         { return int64(pop(name, "int64")) }
func Uint64(name string) uint64       { return pop(name, "uint64") }
func Int32(name string) int32         { return int32(pop(name, "int32")) }
func Uint32(name string) uint32       { return uint32(pop(name, "uint32")) }
func Uint16(name string) uint16       { return uint16(pop(name, "uint16")) }
func Byte(name string) byte           { return byte(pop(name, "uint8")) }
func Int(name string) int             { return int(pop(name, "int")) }
func Float64Bits(name string) float64 { return math.Float64frombits(pop(name, "float64bits")) }

// Choice returns a value in [0,n): a search-tree branching point.
func Choice(name string, n int) int { return int(pop(name, "choice")) }

func Bytes(name string, n int) []byte {
	b := make([]byte, n)
	for i := range b {
		b[i] = byte(pop(fmt.Sprintf("%s[%d]", name, i), "uint8"))
	}
	return b
}

func String(name string, n int) string { return string(Bytes(name, n)) }

func Assume(c bool) {
	if !c {
		panic(skip{})
	}
}

func Assert(c bool, id string) {
	if !c {
		res.Fails = append(res.Fails, failRec{ID: id, Known: append([]string{}, known...)})
	}
}

// Failf records an assertion failure with a message (native only detail).
func AssertMsg(c bool, id string, msg string) {
	if !c {
		res.Fails = append(res.Fails, failRec{ID: id, Known: append([]string{}, known...), Msg: msg})
	}
}

func Reached(id string) { res.Reached = append(res.Reached, id) }

// Known marks the region of a listed known finding: when c holds, assertion
// failures until ClearKnown are attributed to finding id.
func Known(id string, c bool) bool {
	if c {
		known = append(known, id)
	}
	return c
}

func ClearKnown() { known = nil }

// NoPanic runs f; a panic escaping f is an assertion failure id. With an
// allocation budget set, allocating more than the budget (in bytes, measured
// as the growth of runtime.MemStats.TotalAlloc) during f is the failure
// "alloc-oversize".
func NoPanic(id string, f func()) {
	var before runtime.MemStats
	if allocBudget > 0 {
		runtime.ReadMemStats(&before)
		defer func() {
			var after runtime.MemStats
			runtime.ReadMemStats(&after)
			if d := after.TotalAlloc - before.TotalAlloc; d > uint64(allocBudget) {
				res.Fails = append(res.Fails, failRec{ID: "alloc-oversize", Msg: fmt.Sprintf("allocated %d bytes", d)})
			}
		}()
	}
	defer func() {
		if r := recover(); r != nil {
			switch r.(type) {
			case skip, mismatch:
				panic(r)
			}
			res.Fails = append(res.Fails, failRec{ID: id, Known: append([]string{}, known...), Msg: fmt.Sprint(r)})
		}
	}()
	f()
}

// Bounded runs f and reports whether it finished within the budget: in the
// engine the budget is a number of interpreted SSA steps; natively it is a
// wall-clock limit, after which abort() is called (and f is awaited).
func Bounded(steps int, f func(), abort func()) (finished bool) {
	done := make(chan any, 1)
	go func() {
		defer func() { done <- recover() }()
		f()
	}()
	select {
	case p := <-done:
		if p != nil {
			panic(p)
		}
		return true
	case <-time.After(4 * time.Second):
		if abort != nil {
			abort()
		}
		select {
		case <-done:
		case <-time.After(4 * time.Second):
		}
		return false
	}
}

// Note records an observation (shown in evidence samples; no verdict).
func Note(s string) { res.Notes = append(res.Notes, s) }

// Monitors: approximated natively.
func AllocBudget(n int64) { allocBudget = n }
// Freeze / Unfreeze: natively the frozen-object monitor is approximated by a
// deep structural hash of everything reachable from the roots (unexported
// fields included) taken at Freeze and compared at Unfreeze; a difference is
// the failure "frozen-write".
var (
	frozenRoots []any
	frozenHash  uint64
)

func Freeze(roots ...any) {
	frozenRoots = roots
	frozenHash = deepHashAll(roots)
}

func Unfreeze() {
	if frozenRoots == nil {
		return
	}
	if h := deepHashAll(frozenRoots); h != frozenHash {
		res.Fails = append(res.Fails, failRec{ID: "frozen-write", Known: append([]string{}, known...), Msg: "state reachable from the frozen roots changed"})
	}
	frozenRoots = nil
}

func deepHashAll(roots []any) uint64 {
	h := uint64(1469598103934665603)
	seen := map[uintptr]int{}
	for _, r := range roots {
		h = deepHash(reflect.ValueOf(r), seen, h)
	}
	return h
}

func mix(h, x uint64) uint64 { return (h ^ x) * 1099511628211 }

func deepHash(v reflect.Value, seen map[uintptr]int, h uint64) uint64 {
	if !v.IsValid() {
		return mix(h, 0x9e37)
	}
	switch v.Kind() {
	case reflect.Bool:
		if v.Bool() {
			return mix(h, 3)
		}
		return mix(h, 2)
	case reflect.Int, reflect.Int8, reflect.Int16, reflect.Int32, reflect.Int64:
		return mix(h, uint64(v.Int()))
	case reflect.Uint, reflect.Uint8, reflect.Uint16, reflect.Uint32, reflect.Uint64, reflect.Uintptr:
		return mix(h, v.Uint())
	case reflect.Float32, reflect.Float64:
		return mix(h, math.Float64bits(v.Float()))
	case reflect.String:
		s := v.String()
		h = mix(h, uint64(len(s)))
		for i := 0; i < len(s); i++ {
			h = mix(h, uint64(s[i]))
		}
		return h
	case reflect.Ptr:
		if v.IsNil() {
			return mix(h, 5)
		}
		p := v.Pointer()
		if n, ok := seen[p]; ok {
			return mix(h, uint64(1000+n)) // identity by first-visit order
		}
		seen[p] = len(seen)
		return deepHash(v.Elem(), seen, mix(h, 7))
	case reflect.Interface:
		if v.IsNil() {
			return mix(h, 11)
		}
		e := v.Elem()
		h = mix(h, uint64(len(e.Type().String())))
		return deepHash(e, seen, h)
	case reflect.Struct:
		for i := 0; i < v.NumField(); i++ {
			if t := v.Type(); t.PkgPath() == "sync" || t.PkgPath() == "sync/atomic" {
				continue
			}
			h = deepHash(v.Field(i), seen, mix(h, uint64(i)))
		}
		return h
	case reflect.Slice:
		if v.IsNil() {
			return mix(h, 13)
		}
		fallthrough
	case reflect.Array:
		h = mix(h, uint64(v.Len()))
		for i := 0; i < v.Len(); i++ {
			h = deepHash(v.Index(i), seen, h)
		}
		return h
	case reflect.Map:
		if v.IsNil() {
			return mix(h, 17)
		}
		var acc uint64 // order independent
		it := v.MapRange()
		for it.Next() {
			e := deepHash(it.Key(), map[uintptr]int{}, 1469598103934665603)
			e = deepHash(it.Value(), map[uintptr]int{}, e)
			acc += e
		}
		return mix(mix(h, uint64(v.Len())), acc)
	case reflect.Func, reflect.Chan, reflect.UnsafePointer:
		if v.IsNil() {
			return mix(h, 19)
		}
		return mix(h, 23)
	}
	return h
}

// Symbolic reports whether the harness runs inside the symbolic engine.
func Symbolic() bool { return false }

// Replay runs every witness of $VERIF_WITNESSES that names a harness in fns
// and prints one VERIF-RESULT json line per witness.
func Replay(t *testing.T, pkg string, fns map[string]func()) {
	path := os.Getenv("VERIF_WITNESSES")
	if path == "" {
		t.Skip("VERIF_WITNESSES not set")
	}
	data, err := os.ReadFile(path)
	if err != nil {
		t.Fatal(err)
	}
	var ws []witness
	if err := json.Unmarshal(data, &ws); err != nil {
		t.Fatal(err)
	}
	only := -1
	if s := os.Getenv("VERIF_ONLY"); s != "" {
		fmt.Sscan(s, &only)
	}
	shardK, shardN := 0, 1
	if s := os.Getenv("VERIF_SHARD"); s != "" {
		fmt.Sscanf(s, "%d/%d", &shardK, &shardN)
	}
	for i := range ws {
		w := &ws[i]
		if w.Pkg != pkg || (only >= 0 && i != only) || (only < 0 && w.Event == "alloc") || (only < 0 && i%shardN != shardK) {
			continue
		}
		f := fns[w.Harness]
		r := &result{Idx: i}
		if f == nil {
			r.Mismatch = "harness not found: " + w.Harness
		} else {
			cur, pos, res, known, allocBudget, frozenRoots = w, 0, r, nil, 0, nil
			func() {
				defer func() {
					if p := recover(); p != nil {
						switch p := p.(type) {
						case skip:
							r.Skipped = true
						case mismatch:
							r.Mismatch = p.msg
						default:
							r.Panic = fmt.Sprint(p)
							if os.Getenv("VERIF_STACK") != "" {
								r.Panic += "\n" + string(debug.Stack())
							}
						}
					}
				}()
				f()
			}()
			cur = nil
		}
		b, _ := json.Marshal(r)
		fmt.Printf("VERIF-RESULT %s\n", b)
	}
}

// FmtState is the fmt.State the engine's fmt model hands to interpreted
// Format methods (field order is known to the engine).
type FmtState struct {
	Buf                            []byte
	Plus, Minus, Sharp, Space, Zero bool
	Wid, Prec                      int
	HasWid, HasPrec                bool
}

func (s *FmtState) Write(b []byte) (int, error) { s.Buf = append(s.Buf, b...); return len(b), nil }
func (s *FmtState) Width() (int, bool)          { return s.Wid, s.HasWid }
func (s *FmtState) Precision() (int, bool)      { return s.Prec, s.HasPrec }
func (s *FmtState) Flag(c int) bool {
	switch c {
	case '+':
		return s.Plus
	case '-':
		return s.Minus
	case '#':
		return s.Sharp
	case ' ':
		return s.Space
	case '0':
		return s.Zero
	}
	return false
}
