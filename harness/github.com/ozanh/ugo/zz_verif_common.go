//go:build verif

package ugo

import (
	"github.com/ozanh/ugo/internal/verifrt"
)

// Kinds of nondeterministic objects.
const (
	vkInt = iota
	vkUint
	vkFloat
	vkChar
	vkBool
	vkUndefined
	vkString
	vkBytes
	vkArray
	vkMap
	vkNumKinds
)

var vkNames = [...]string{"int", "uint", "float", "char", "bool", "undefined", "string", "bytes", "array", "map"}

// verifScalar returns an object of scalar kind k with a fully symbolic payload.
func verifScalar(name string, k int) Object {
	switch k {
	case vkInt:
		return Int(verifrt.Int64(name + ".i"))
	case vkUint:
		return Uint(verifrt.Uint64(name + ".u"))
	case vkFloat:
		return Float(verifrt.Float64Bits(name + ".f"))
	case vkChar:
		return Char(verifrt.Int32(name + ".c"))
	case vkBool:
		return Bool(verifrt.Bool(name + ".b"))
	}
	return Undefined
}

// verifObject returns an object whose kind is a choice among nkinds kinds and
// whose payload is symbolic; strings/bytes have length 0..maxLen, containers
// hold 0..maxLen scalar elements (depth 1).
func verifObject(name string, nkinds, maxLen int) (Object, int) {
	k := verifrt.Choice(name+".kind", nkinds)
	switch k {
	case vkString:
		n := verifrt.Choice(name+".len", maxLen+1)
		return String(verifrt.String(name+".s", n)), k
	case vkBytes:
		n := verifrt.Choice(name+".len", maxLen+1)
		return Bytes(verifrt.Bytes(name+".y", n)), k
	case vkArray:
		n := verifrt.Choice(name+".len", maxLen+1)
		arr := make(Array, n)
		for i := range arr {
			ek := verifrt.Choice(name+".ek", vkUndefined+1)
			arr[i] = verifScalar(name+".e", ek)
		}
		return arr, k
	case vkMap:
		n := verifrt.Choice(name+".len", maxLen+1)
		m := make(Map, n)
		keys := []string{"a", "b", "c"}
		for i := 0; i < n; i++ {
			ek := verifrt.Choice(name+".ek", vkUndefined+1)
			m[keys[i]] = verifScalar(name+".e", ek)
		}
		return m, k
	}
	return verifScalar(name, k), k
}

// Exported wrappers for harnesses in other packages of the module.
func VerifScalar(name string, k int) Object           { return verifScalar(name, k) }
func VerifSameObject(a, b Object) bool                { return verifSameObject(a, b) }
func VerifRunBC(bc *Bytecode, args ...Object) (Object, error, string) {
	o := verifRunBC(bc, nil, args...)
	return o.val, o.err, o.out
}
func VerifSameError(a, b error) bool { return verifSameError(a, b) }

// VerifRefRun: the reference interpreter for harnesses in other packages.
// cb names a global that the reference run binds to a plain "call the first
// argument with the remaining ones" function (the VM run binds it to a Go
// function that goes through an Invoker).
func VerifRefRun(src string, mm *ModuleMap, globals Map, cb string, args ...Object) (val Object, errName, errMsg string, failed bool, unsupported string) {
	if globals == nil {
		globals = Map{}
	}
	if cb != "" {
		globals[cb] = &Function{Name: cb, Value: func(a ...Object) (Object, error) {
			if len(a) == 0 {
				return nil, ErrWrongNumArguments.NewError("want>=1 got=0")
			}
			return a[0].Call(a[1:]...)
		}}
	}
	v, thr, ri := refRun(src, mm, globals, args...)
	if thr != nil {
		return nil, thr.Err.Name, thr.Err.Message, true, ri.unsupported
	}
	return v, "", "", false, ri.unsupported
}

func VerifSameObjectRI(got, want Object) bool { return verifSameObjectRI(got, want) }

func VerifErrNameMsg(err error) (string, string) { return verifErrNameMsg(err) }

// VerifInvokerCallback: a Go function that calls its first argument through
// an Invoker (pooled child VM) with the remaining arguments.
func VerifInvokerCallback(name string) *Function {
	return &Function{Name: name, ValueEx: func(c Call) (Object, error) {
		if c.Len() < 1 {
			return nil, ErrWrongNumArguments.NewError("want>=1 got=0")
		}
		args := make([]Object, 0, c.Len()-1)
		for i := 1; i < c.Len(); i++ {
			args = append(args, c.Get(i))
		}
		inv := NewInvoker(c.VM(), c.Get(0))
		inv.Acquire()
		defer inv.Release()
		return inv.Invoke(args...)
	}}
}
