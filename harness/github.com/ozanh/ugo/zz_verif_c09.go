//go:build verif

package ugo

import (
	"context"
	"errors"
	"runtime"

	"github.com/ozanh/ugo/internal/verifrt"
)

// the named synchronisation points of the abort protocol (verifsync hooks)
var verifC09Points = [...]string{
	"run.entered", "run.before-reset", "run.after-reset",
	"pool.before-register", "pool.registered", "invoke.checked", "pool.before-release",
	"eval.before-check", "eval.started",
	"script.mark", // a Go function called by the script (scenario 6): the run is in progress, at any call depth
}

const (
	verifC09None  = len(verifC09Points) // "no second placement"
	verifC09Steps = 400_000             // a run that has seen the flag ends within a few hundred steps
)

// the windows in which the unchanged tree loses an abort (open known findings)
const (
	c09RootReset   = "C09-abort-before-root-run-reset-lost"
	c09ChildReset  = "C09-abort-before-child-run-reset-lost"
	c09Unregistred = "C09-abort-while-callback-has-no-registered-child-lost"
	c09EvalReset   = "C09-eval-cancel-before-run-reset-lost"
)

// verifC09Window names the known window a placement falls into, "" if none.
// onRoot: the hook fired for the root VM; more: the callback starts another
// child run after this point.
func verifC09Window(scenario int, point string, onRoot, more bool) string {
	switch point {
	case "run.entered", "run.before-reset":
		switch {
		case scenario == 2:
			return c09EvalReset
		case onRoot:
			return c09RootReset
		default:
			return c09ChildReset
		}
	case "eval.started":
		return c09EvalReset
	case "invoke.checked":
		return c09ChildReset
	case "pool.before-register":
		return c09Unregistred
	case "pool.before-release":
		if more {
			return c09Unregistred
		}
	}
	return ""
}

// VerifC09Abort places one or two Aborts (or a context cancellation) at named
// points of the protocol - the runner is parked at the point while another
// goroutine performs the call to completion - and checks that the run still
// ends with the aborted error within a bounded number of steps, that Abort
// can be repeated, and that the VM afterwards runs a script normally.
//
// Params: scenario
//
//	0 Run of an endless loop
//	1 endless script function run by a pooled child VM inside a Go callback
//	2 Eval.Run of an endless loop under a context (cancellation instead of Abort)
//	3 as 1 with a non-pooled child
//	4 a callback that runs two pooled children in turn: the first returns, the second is endless
//	5 a callback whose pooled child returns, followed by an endless loop on the root
//	6 an endless loop at call depth 2 under live try statements at depths 0 and 1
//	7 child VMs nested two deep, 8 three deep (after a returning sibling)
//
// point (first placement), two (0: one placement; 1: a second placement
// follows). The occurrence of the first placement and the whole second
// placement are engine choices, so one job covers occ1 in 1..3 x
// (point2 x occ2 in 1..3).
func VerifC09Abort() {
	scenario := verifrt.Param("scenario")
	p1 := verifrt.Param("point")
	occ1 := 1 + verifrt.Choice("occ1", 3)
	p2 := verifC09None
	occ2 := 0
	if verifrt.Param("two") != 0 {
		p2 = verifrt.Choice("point2", len(verifC09Points))
		occ2 = 1 + verifrt.Choice("occ2", 3)
	}

	var root *VM
	var cancel context.CancelFunc
	more := false // set by scenario 4 while its second child has not started
	type placement struct {
		point     string
		occ, seen int
		fired     bool
		window    string
	}
	pl := []*placement{{point: verifC09Points[p1], occ: occ1}}
	if p2 != verifC09None {
		pl = append(pl, &placement{point: verifC09Points[p2], occ: occ2})
	}
	next := 0 // placements fire in order
	VerifSyncHook = func(p string, v *VM) {
		if next >= len(pl) || pl[next].point != p {
			return
		}
		cur := pl[next]
		cur.seen++
		if cur.seen != cur.occ {
			return
		}
		cur.fired = true
		cur.window = verifC09Window(scenario, p, v == root, more)
		next++
		done := make(chan struct{})
		go func() {
			defer close(done)
			if cancel != nil {
				cancel()
			} else {
				root.Abort()
				root.Abort() // Abort may be called any number of times
			}
		}()
		<-done
		if cancel != nil {
			// cancellation reaches the VM through Eval's own goroutine: the
			// runner stays parked here until that Abort has been made
			for n := 0; !root.Aborted() && n < 10000; n++ {
				runtime.Gosched()
			}
		}
	}
	defer func() { VerifSyncHook = nil }()

	invoke := func(c Call, fn Object, pooled bool) (Object, error) {
		inv := NewInvoker(c.VM(), fn)
		if pooled {
			inv.Acquire()
			defer inv.Release()
		}
		return inv.Invoke()
	}
	g := Map{
		"cb": &Function{Name: "cb", ValueEx: func(c Call) (Object, error) {
			return invoke(c, c.Get(0), scenario != 3)
		}},
		"mark": &Function{Name: "mark", ValueEx: func(c Call) (Object, error) {
			if VerifSyncHook != nil {
				VerifSyncHook("script.mark", c.VM())
			}
			return Undefined, nil
		}},
		"cb2": &Function{Name: "cb2", ValueEx: func(c Call) (Object, error) {
			more = true
			if _, err := invoke(c, c.Get(0), true); err != nil {
				return nil, err
			}
			more = false
			return invoke(c, c.Get(1), true)
		}},
	}

	var err error
	finished := true
	src := ""
	switch scenario {
	case 0:
		src = `for {}`
	case 1, 3:
		src = `global cb; f := func() { for {} }; return cb(f)`
	case 4:
		src = `global cb2; f := func() { return 1 }; h := func() { for {} }; return cb2(f, h)`
	case 5:
		src = `global cb; f := func() { return 1 }; cb(f); for {}`
	case 7:
		// child VMs nested two deep (a callback's script function is itself
		// inside a callback); the innermost runs for ever
		src = `global (cb, mark); f := func() { mark(); for {} }; g := func() { return cb(f) }; return cb(g)`
	case 8:
		// nested three deep, the middle one after a returning sibling
		src = `global (cb, cb2, mark); f := func() { mark(); for {} }; g := func() { return cb(f) }; one := func() { return 1 }; h := func() { return cb2(one, g) }; return cb(h)`
	case 6:
		src = `global mark; f := func() { mark(); for {} }; g := func() { try { return f() } catch e { return 0 } finally { } }; h := func() { try { return g() } finally { } }; return h()`
	}
	if scenario == 2 {
		ctx, cf := context.WithCancel(context.Background())
		cancel = cf
		e := NewEval(CompilerOptions{}, nil)
		root = e.VM
		finished = verifrt.Bounded(verifC09Steps, func() { _, _, err = e.Run(ctx, []byte(`for {}`)) }, func() { e.VM.Abort() })
	} else {
		bc, cerr := Compile([]byte(src), CompilerOptions{})
		verifrt.Assert(cerr == nil, "compiles")
		root = NewVM(bc)
		finished = verifrt.Bounded(verifC09Steps, func() { _, err = root.Run(g) }, func() { root.Abort() })
	}
	for _, p := range pl {
		verifrt.Assume(p.fired) // every placement lies on this scenario's path
	}
	verifrt.Reached("placed")
	// The loss of the abort is a known finding only when every placement fell
	// into one of the known windows.
	allKnown := true
	for _, p := range pl {
		allKnown = allKnown && p.window != ""
	}
	for _, w := range []string{c09RootReset, c09ChildReset, c09Unregistred, c09EvalReset} {
		hit := false
		for _, p := range pl {
			hit = hit || p.window == w
		}
		verifrt.Known(w, allKnown && hit)
	}
	verifrt.Assert(finished, "abort-not-lost")
	verifrt.ClearKnown()
	if !finished {
		// the run was stopped by the step budget, not by the protocol: its VM
		// is in no defined state, nothing further is observed on this path
		return
	}
	if scenario == 2 {
		verifrt.Assert(err != nil, "cancelled-eval-returns-an-error")
		verifrt.Assert(errors.Is(err, context.Canceled) || errors.Is(err, ErrVMAborted), "cancelled-eval-error-is-cancellation")
	} else {
		verifrt.Assert(errors.Is(err, ErrVMAborted), "run-returns-aborted-error")
	}
	// an aborted VM runs later scripts normally
	VerifSyncHook = nil
	if scenario == 2 {
		return
	}
	// (the later script calls script functions through the same kind of Go
	// callback, so child VMs that went back to the process-wide pool while
	// aborted are observed too)
	// and throws and catches inside functions at call depths 1 and 2, where an
	// aborted run may have left handlers behind
	later := `k := func(y) { if y { throw "t" }; return 40 }; w := func(y) { return k(y) }; r := 0; try { w(1) } catch e { r = 2 }; return w(0) + r`
	if scenario != 0 && scenario != 6 {
		later = `global cb; k := func(y) { if y { throw "t" }; return 39 }; r := 0; try { k(1) } catch e { r = 1 }; f := func() { return k(0) }; h := func() { return 1 }; return cb(f) + cb(h) + r + 1`
	}
	bc2, _ := Compile([]byte(later), CompilerOptions{})
	var v Object
	var err2 error
	ok := verifrt.Bounded(verifC09Steps, func() { v, err2 = root.SetBytecode(bc2).Run(g) }, root.Abort)
	verifrt.Assert(ok && err2 == nil && v != nil && v.Equal(Int(42)), "aborted-vm-runs-later-scripts")
	verifrt.Reached("end")
}
