//go:build verif

package ugo

import (
	"context"

	"github.com/ozanh/ugo/internal/verifrt"
)

var verifC09Points = [...]string{
	"run.entered", "run.before-reset", "run.after-reset",
	"pool.before-register", "pool.registered", "invoke.checked", "pool.before-release",
	"eval.before-check", "eval.started",
}

// VerifC09Abort places one Abort (or context cancellation) at a named point
// of the protocol - the runner is parked at the point while another goroutine
// performs the call to completion - and checks that the run still ends with
// the aborted error within a bounded number of steps, that Abort can be
// repeated, and that the VM afterwards runs a script normally.
// Params: scenario (0 Run of an endless loop, 1 endless script function run
// by a pooled child VM inside a Go callback, 2 Eval.Run under a context,
// 3 endless loop inside a non-pooled child), point, occ (occurrence of the
// point, counting from 1).
func VerifC09Abort() {
	scenario := verifrt.Param("scenario")
	point := verifC09Points[verifrt.Param("point")]
	occ := verifrt.Param("occ")

	var root *VM
	var cancel context.CancelFunc
	count := 0
	fired := false
	VerifSyncHook = func(p string, v *VM) {
		if p != point || fired {
			return
		}
		count++
		if count != occ {
			return
		}
		fired = true
		done := make(chan struct{})
		go func() {
			defer close(done)
			if cancel != nil {
				cancel()
			} else {
				root.Abort()
				root.Abort() // Abort may be called any number of times
			}
		}()
		<-done
	}
	defer func() { VerifSyncHook = nil }()

	pooled := scenario == 1
	g := Map{"cb": &Function{Name: "cb", ValueEx: func(c Call) (Object, error) {
		inv := NewInvoker(c.VM(), c.Get(0))
		if pooled {
			inv.Acquire()
			defer inv.Release()
		}
		return inv.Invoke()
	}}}

	var err error
	finished := true
	lostKnown := false
	switch scenario {
	case 0:
		bc, cerr := Compile([]byte(`for {}`), CompilerOptions{})
		verifrt.Assert(cerr == nil, "compiles")
		root = NewVM(bc)
		lostKnown = point == "run.entered" || point == "run.before-reset"
		finished = verifrt.Bounded(3_000_000, func() { _, err = root.Run(nil) }, root.Abort)
	case 1, 3:
		bc, cerr := Compile([]byte(`global cb; f := func() { for {} }; return cb(f)`), CompilerOptions{})
		verifrt.Assert(cerr == nil, "compiles")
		root = NewVM(bc)
		// the first Run entry is the root's, later ones are the child's
		lostKnown = point == "pool.before-register" || point == "invoke.checked" ||
			(point == "run.entered" || point == "run.before-reset")
		finished = verifrt.Bounded(3_000_000, func() { _, err = root.Run(g) }, func() {
			root.Abort()
		})
	case 2:
		ctx, cf := context.WithCancel(context.Background())
		cancel = cf
		e := NewEval(CompilerOptions{}, nil)
		root = e.VM
		lostKnown = point == "eval.started" || point == "run.entered" || point == "run.before-reset"
		finished = verifrt.Bounded(3_000_000, func() { _, _, err = e.Run(ctx, []byte(`for {}`)) }, func() { e.VM.Abort() })
	}
	verifrt.Assume(fired) // the point lies on this scenario's path
	verifrt.Known("C09-abort-lost-before-flag-reset", lostKnown)
	verifrt.Assert(finished, "abort-not-lost")
	if finished {
		if scenario == 2 {
			verifrt.Assert(err != nil, "cancelled-eval-returns-an-error")
		} else {
			verifrt.Assert(err == ErrVMAborted, "run-returns-aborted-error")
		}
	}
	verifrt.ClearKnown()
	// an aborted VM runs later scripts normally
	if scenario != 2 {
		VerifSyncHook = nil
		bc2, _ := Compile([]byte(`return 6 * 7`), CompilerOptions{})
		var v Object
		var err2 error
		ok := verifrt.Bounded(3_000_000, func() { v, err2 = root.SetBytecode(bc2).Run(nil) }, root.Abort)
		verifrt.Assert(ok && err2 == nil && v != nil && v.Equal(Int(42)), "aborted-vm-runs-later-scripts")
	}
	verifrt.Reached("end")
}
