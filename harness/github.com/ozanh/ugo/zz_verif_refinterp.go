//go:build verif

package ugo

// refinterp: a tree-walking reference interpreter of the uGO AST written from
// the language documentation (docs/tutorial.md, docs/error-handling.md,
// docs/destructuring.md). It defines control flow, scoping, closures, call
// binding, assignment order, destructuring, const/iota, try/catch/finally and
// the module cache; operators, indexing, iteration and builtin functions are
// delegated to the real Object methods (those are property C15/C19's subject).

import (
	"strconv"

	"github.com/ozanh/ugo/parser"
	"github.com/ozanh/ugo/token"
)

type riCell struct {
	v       Object
	isConst bool
}

type riEnv struct {
	vars   map[string]*riCell
	parent *riEnv
	fnTop  bool // function (or script) top-level scope
}

func (e *riEnv) lookup(name string) *riCell {
	for s := e; s != nil; s = s.parent {
		if c, ok := s.vars[name]; ok {
			return c
		}
	}
	return nil
}

func (e *riEnv) define(name string, v Object) *riCell {
	c := &riCell{v: v}
	if e.vars == nil {
		e.vars = map[string]*riCell{}
	}
	e.vars[name] = c
	return c
}

// riFunc is a script function value of the reference interpreter.
type riFunc struct {
	ObjectImpl
	lit *parser.FuncLit
	env *riEnv
	ri  *refInterp
	// module functions keep the file they were parsed from for error lines
	file *parser.SourceFile
}

func (*riFunc) TypeName() string { return "compiledFunction" }
func (*riFunc) String() string   { return "<compiledFunction>" }
func (*riFunc) CanCall() bool    { return true }
func (*riFunc) IsFalsy() bool    { return false }
func (f *riFunc) Equal(o Object) bool {
	g, ok := o.(*riFunc)
	return ok && g == f
}
func (f *riFunc) Call(args ...Object) (Object, error) {
	v, thr := f.ri.callFunc(f, args, 0)
	if thr != nil {
		return nil, thr
	}
	return v, nil
}

const (
	riNormal = iota
	riReturn
	riBreak
	riContinue
	riThrow
)

type riCtl struct {
	kind int
	val  Object
	err  *RuntimeError
}

type refInterp struct {
	globals  Map
	params   []Object
	modules  map[string]Object
	mm       *ModuleMap
	depth    int
	steps    int
	file     *parser.SourceFile
	trace    []int    // lines of active call statements (outermost first)
	traceF   []string // files of those call statements
	lastLine int      // line of the statement being executed
	// line trace of the last uncaught error: call lines outermost first + failing line
	errLines []int
	errFiles []string
	unsupported string
}

var riNormalCtl = riCtl{}

func (ri *refInterp) throwErr(e *Error) riCtl {
	return riCtl{kind: riThrow, err: &RuntimeError{Err: e}}
}

func (ri *refInterp) throwGo(err error) riCtl {
	switch v := err.(type) {
	case *RuntimeError:
		return riCtl{kind: riThrow, err: v}
	case *Error:
		return ri.throwErr(v)
	}
	return ri.throwErr(&Error{Message: err.Error(), Cause: err})
}

// throwObject implements `throw x` as documented: errors are wrapped, other
// values give an error whose message is the value's string.
func (ri *refInterp) throwObject(o Object) riCtl {
	switch v := o.(type) {
	case *RuntimeError:
		return riCtl{kind: riThrow, err: v}
	case *Error:
		return ri.throwErr(v)
	}
	return ri.throwErr(&Error{Message: o.String()})
}

// RunScript parses and runs src.
func refRun(src string, mm *ModuleMap, globals Map, args ...Object) (val Object, thrown *RuntimeError, ri *refInterp) {
	ri = &refInterp{globals: globals, params: args, modules: map[string]Object{}, mm: mm}
	if ri.globals == nil {
		ri.globals = Map{}
	}
	fs := parser.NewFileSet()
	sf := fs.AddFile("(main)", -1, len(src))
	p := parser.NewParser(sf, []byte(src), nil)
	pf, err := p.ParseFile()
	if err != nil {
		ri.unsupported = "parse error: " + err.Error()
		return nil, nil, ri
	}
	ri.file = sf
	env := &riEnv{fnTop: true}
	c := ri.execStmts(pf.Stmts, env)
	switch c.kind {
	case riReturn:
		return c.val, nil, ri
	case riThrow:
		return nil, c.err, ri
	}
	return Undefined, nil, ri
}

func (ri *refInterp) line(n parser.Node) int {
	if ri.file == nil {
		return 0
	}
	return ri.file.Position(n.Pos()).Line
}

func (ri *refInterp) execStmts(stmts []parser.Stmt, env *riEnv) riCtl {
	for _, s := range stmts {
		if c := ri.exec(s, env); c.kind != riNormal {
			return c
		}
	}
	return riNormalCtl
}

func (ri *refInterp) execBlock(b *parser.BlockStmt, env *riEnv) riCtl {
	if b == nil {
		return riNormalCtl
	}
	return ri.execStmts(b.Stmts, &riEnv{parent: env})
}

func (ri *refInterp) exec(s parser.Stmt, env *riEnv) riCtl {
	ri.steps++
	if ri.steps > 200000 {
		ri.unsupported = "step limit"
		return ri.throwErr(&Error{Name: "refinterp", Message: "step limit"})
	}
	switch n := s.(type) {
	case *parser.EmptyStmt:
	case *parser.ExprStmt:
		ri.lastLine = ri.line(n)
		_, c := ri.eval(n.Expr, env)
		return c
	case *parser.BlockStmt:
		return ri.execBlock(n, env)
	case *parser.DeclStmt:
		ri.lastLine = ri.line(n)
		return ri.execDecl(n.Decl.(*parser.GenDecl), env)
	case *parser.AssignStmt:
		ri.lastLine = ri.line(n)
		return ri.execAssign(n, env)
	case *parser.IncDecStmt:
		ri.lastLine = ri.line(n)
		op := token.Add
		if n.Token == token.Dec {
			op = token.Sub
		}
		return ri.compound(n.Expr, op, Int(1), env)
	case *parser.IfStmt:
		scope := &riEnv{parent: env}
		if n.Init != nil {
			if c := ri.exec(n.Init, scope); c.kind != riNormal {
				return c
			}
		}
		ri.lastLine = ri.line(n)
		cond, c := ri.eval(n.Cond, scope)
		if c.kind != riNormal {
			return c
		}
		if !cond.IsFalsy() {
			return ri.execBlock(n.Body, scope)
		}
		if n.Else != nil {
			return ri.exec(n.Else, scope)
		}
	case *parser.ForStmt:
		scope := &riEnv{parent: env}
		if n.Init != nil {
			if c := ri.exec(n.Init, scope); c.kind != riNormal {
				return c
			}
		}
		for {
			if n.Cond != nil {
				ri.lastLine = ri.line(n)
				cond, c := ri.eval(n.Cond, scope)
				if c.kind != riNormal {
					return c
				}
				if cond.IsFalsy() {
					break
				}
			}
			c := ri.execBlock(n.Body, scope)
			if c.kind == riBreak {
				break
			}
			if c.kind == riReturn || c.kind == riThrow {
				return c
			}
			if n.Post != nil {
				if c := ri.exec(n.Post, scope); c.kind != riNormal {
					return c
				}
			}
		}
	case *parser.ForInStmt:
		ri.lastLine = ri.line(n)
		scope := &riEnv{parent: env}
		it, c := ri.eval(n.Iterable, scope)
		if c.kind != riNormal {
			return c
		}
		if !it.CanIterate() {
			return ri.throwErr(ErrNotIterable.NewError(it.TypeName()))
		}
		iter := it.Iterate()
		for iter.Next() {
			// the key/value variables are fresh in every iteration (the
			// documentation is silent; closures created in the body keep
			// the element they were created for)
			scope = &riEnv{parent: env}
			if n.Key != nil && n.Key.Name != "_" {
				scope.define(n.Key.Name, iter.Key())
			}
			if n.Value != nil && n.Value.Name != "_" {
				scope.define(n.Value.Name, iter.Value())
			}
			c := ri.execBlock(n.Body, scope)
			if c.kind == riBreak {
				break
			}
			if c.kind == riReturn || c.kind == riThrow {
				return c
			}
		}
	case *parser.BranchStmt:
		if n.Token == token.Break {
			return riCtl{kind: riBreak}
		}
		return riCtl{kind: riContinue}
	case *parser.ReturnStmt:
		ri.lastLine = ri.line(n)
		if n.Result == nil {
			return riCtl{kind: riReturn, val: Undefined}
		}
		v, c := ri.eval(n.Result, env)
		if c.kind != riNormal {
			return c
		}
		return riCtl{kind: riReturn, val: v}
	case *parser.ThrowStmt:
		ri.lastLine = ri.line(n)
		v, c := ri.eval(n.Expr, env)
		if c.kind != riNormal {
			return c
		}
		t := ri.throwObject(v)
		ri.noteThrow()
		return t
	case *parser.TryStmt:
		// one scope for try, catch and finally (the catch variable and
		// variables of the try body are visible in catch/finally, as documented)
		scope := &riEnv{parent: env}
		c := ri.execStmts(n.Body.Stmts, scope)
		if c.kind == riThrow && n.Catch != nil {
			if n.Catch.Ident != nil {
				scope.define(n.Catch.Ident.Name, c.err)
			}
			c = ri.execStmts(n.Catch.Body.Stmts, scope)
		}
		if n.Finally != nil {
			if f := ri.execStmts(n.Finally.Body.Stmts, scope); f.kind != riNormal {
				c = f
			}
		}
		return c
	default:
		ri.unsupported = "statement " + s.String()
	}
	return riNormalCtl
}

func (ri *refInterp) noteThrow() {
	ri.errLines = append(append([]int{}, ri.trace...), ri.lastLine)
	name := ""
	if ri.file != nil {
		name = ri.file.Name
	}
	ri.errFiles = append(append([]string{}, ri.traceF...), name)
}

func (ri *refInterp) execDecl(d *parser.GenDecl, env *riEnv) riCtl {
	switch d.Tok {
	case token.Param:
		for i, sp := range d.Specs {
			ps := sp.(*parser.ParamSpec)
			var v Object = Undefined
			if ps.Variadic {
				arr := Array{}
				if i < len(ri.params) {
					arr = append(arr, ri.params[i:]...)
				}
				v = arr
			} else if i < len(ri.params) {
				v = ri.params[i]
			}
			env.define(ps.Ident.Name, v)
		}
	case token.Global:
		// a global name refers to the globals map entry (read and written through it)
		for _, sp := range d.Specs {
			ps := sp.(*parser.ParamSpec)
			c := env.define(ps.Ident.Name, nil)
			c.v = &riGlobalRef{name: ps.Ident.Name}
		}
	case token.Var, token.Const:
		isConst := d.Tok == token.Const
		var last parser.Expr
		for _, sp := range d.Specs {
			vs := sp.(*parser.ValueSpec)
			iota, _ := vs.Data.(int)
			for i, id := range vs.Idents {
				var e parser.Expr
				if i < len(vs.Values) {
					e = vs.Values[i]
				}
				var v Object = Undefined
				if e == nil && isConst && last != nil {
					e = last
				} else if e != nil {
					last = e
				}
				if e != nil {
					scope := env
					if isConst && env.lookup("iota") == nil {
						scope = &riEnv{parent: env}
						scope.define("iota", Int(iota))
					}
					var c riCtl
					v, c = ri.eval(e, scope)
					if c.kind != riNormal {
						return c
					}
				}
				if id.Name == "_" {
					continue
				}
				cell := env.define(id.Name, v)
				cell.isConst = isConst
			}
		}
	}
	return riNormalCtl
}

// riGlobalRef marks a variable declared with `global`.
type riGlobalRef struct {
	ObjectImpl
	name string
}

func (ri *refInterp) load(c *riCell) Object {
	if g, ok := c.v.(*riGlobalRef); ok {
		v, err := ri.globals.IndexGet(String(g.name))
		if err != nil || v == nil {
			return Undefined
		}
		return v
	}
	return c.v
}

func (ri *refInterp) store(c *riCell, v Object) {
	if g, ok := c.v.(*riGlobalRef); ok {
		_ = ri.globals.IndexSet(String(g.name), v)
		return
	}
	c.v = v
}

func (ri *refInterp) execAssign(n *parser.AssignStmt, env *riEnv) riCtl {
	if len(n.LHS) > 1 {
		// destructuring: the right hand side is evaluated once; arrays are
		// spread over the targets, anything else goes to the first target
		if len(n.RHS) != 1 {
			ri.unsupported = "tuple assignment with several right hand sides"
			return riNormalCtl
		}
		v, c := ri.eval(n.RHS[0], env)
		if c.kind != riNormal {
			return c
		}
		vals := make([]Object, len(n.LHS))
		for i := range vals {
			vals[i] = Undefined
		}
		if arr, ok := v.(Array); ok {
			for i := range vals {
				if i < len(arr) {
					vals[i] = arr[i]
				}
			}
		} else {
			vals[0] = v
		}
		for i, l := range n.LHS {
			if c := ri.assignTo(l, vals[i], n.Token == token.Define, env); c.kind != riNormal {
				return c
			}
		}
		return riNormalCtl
	}
	switch n.Token {
	case token.Define, token.Assign:
		v, c := ri.eval(n.RHS[0], env)
		if c.kind != riNormal {
			return c
		}
		return ri.assignTo(n.LHS[0], v, n.Token == token.Define, env)
	}
	// compound assignment: (lhs) = (lhs) op (rhs); the right hand side first
	op, ok := riCompoundOps[n.Token]
	if !ok {
		ri.unsupported = "assignment token " + n.Token.String()
		return riNormalCtl
	}
	rhs, c := ri.eval(n.RHS[0], env)
	if c.kind != riNormal {
		return c
	}
	return ri.compound(n.LHS[0], op, rhs, env)
}

var riCompoundOps = map[token.Token]token.Token{
	token.AddAssign: token.Add, token.SubAssign: token.Sub, token.MulAssign: token.Mul,
	token.QuoAssign: token.Quo, token.RemAssign: token.Rem, token.AndAssign: token.And,
	token.OrAssign: token.Or, token.XorAssign: token.Xor, token.ShlAssign: token.Shl,
	token.ShrAssign: token.Shr, token.AndNotAssign: token.AndNot,
}

// compound evaluates target = target op rhs (rhs already evaluated).
func (ri *refInterp) compound(target parser.Expr, op token.Token, rhs Object, env *riEnv) riCtl {
	cur, c := ri.eval(target, env)
	if c.kind != riNormal {
		return c
	}
	v, err := cur.BinaryOp(op, rhs)
	if err != nil {
		ri.noteThrow()
		return ri.throwGo(err)
	}
	return ri.assignTo(target, v, false, env)
}

// assignTo stores v into the target expression (identifier, index or selector).
func (ri *refInterp) assignTo(target parser.Expr, v Object, define bool, env *riEnv) riCtl {
	switch t := target.(type) {
	case *parser.ParenExpr:
		return ri.assignTo(t.Expr, v, define, env)
	case *parser.Ident:
		if t.Name == "_" {
			return riNormalCtl
		}
		if define {
			if c, ok := env.vars[t.Name]; ok {
				// redefinition in the same scope (only legal in destructuring)
				ri.store(c, v)
				return riNormalCtl
			}
			env.define(t.Name, v)
			return riNormalCtl
		}
		c := env.lookup(t.Name)
		if c == nil {
			ri.unsupported = "assignment to unresolved " + t.Name
			return riNormalCtl
		}
		ri.store(c, v)
	case *parser.IndexExpr:
		base, c := ri.eval(t.Expr, env)
		if c.kind != riNormal {
			return c
		}
		idx, c := ri.eval(t.Index, env)
		if c.kind != riNormal {
			return c
		}
		if err := base.IndexSet(idx, v); err != nil {
			ri.noteThrow()
			return ri.throwGo(riIndexErr(err, base, idx))
		}
	case *parser.SelectorExpr:
		base, c := ri.eval(t.Expr, env)
		if c.kind != riNormal {
			return c
		}
		idx, c := ri.eval(t.Sel, env)
		if c.kind != riNormal {
			return c
		}
		if err := base.IndexSet(idx, v); err != nil {
			ri.noteThrow()
			return ri.throwGo(riIndexErr(err, base, idx))
		}
	default:
		ri.unsupported = "assignment target " + target.String()
	}
	return riNormalCtl
}

func (ri *refInterp) eval(e parser.Expr, env *riEnv) (Object, riCtl) {
	switch n := e.(type) {
	case *parser.ParenExpr:
		return ri.eval(n.Expr, env)
	case *parser.IntLit:
		return Int(n.Value), riNormalCtl
	case *parser.UintLit:
		return Uint(n.Value), riNormalCtl
	case *parser.FloatLit:
		return Float(n.Value), riNormalCtl
	case *parser.CharLit:
		return Char(n.Value), riNormalCtl
	case *parser.BoolLit:
		return Bool(n.Value), riNormalCtl
	case *parser.StringLit:
		return String(n.Value), riNormalCtl
	case *parser.UndefinedLit:
		return Undefined, riNormalCtl
	case *parser.Ident:
		if c := env.lookup(n.Name); c != nil {
			return ri.load(c), riNormalCtl
		}
		if idx, ok := BuiltinsMap[n.Name]; ok {
			return BuiltinObjects[idx], riNormalCtl
		}
		ri.unsupported = "unresolved reference " + n.Name
		return Undefined, riNormalCtl
	case *parser.ArrayLit:
		arr := make(Array, 0, len(n.Elements))
		for _, el := range n.Elements {
			v, c := ri.eval(el, env)
			if c.kind != riNormal {
				return nil, c
			}
			arr = append(arr, v)
		}
		return arr, riNormalCtl
	case *parser.MapLit:
		m := make(Map, len(n.Elements))
		for _, el := range n.Elements {
			v, c := ri.eval(el.Value, env)
			if c.kind != riNormal {
				return nil, c
			}
			m[el.Key] = v
		}
		return m, riNormalCtl
	case *parser.FuncLit:
		return &riFunc{lit: n, env: env, ri: ri, file: ri.file}, riNormalCtl
	case *parser.UnaryExpr:
		v, c := ri.eval(n.Expr, env)
		if c.kind != riNormal {
			return nil, c
		}
		r, err := riUnary(n.Token, v)
		if err != nil {
			ri.noteThrow()
			return nil, ri.throwGo(err)
		}
		return r, riNormalCtl
	case *parser.BinaryExpr:
		l, c := ri.eval(n.LHS, env)
		if c.kind != riNormal {
			return nil, c
		}
		switch n.Token {
		case token.LAnd:
			if l.IsFalsy() {
				return l, riNormalCtl
			}
			return ri.eval(n.RHS, env)
		case token.LOr:
			if !l.IsFalsy() {
				return l, riNormalCtl
			}
			return ri.eval(n.RHS, env)
		}
		r, c := ri.eval(n.RHS, env)
		if c.kind != riNormal {
			return nil, c
		}
		switch n.Token {
		case token.Equal:
			return Bool(l.Equal(r)), riNormalCtl
		case token.NotEqual:
			return Bool(!l.Equal(r)), riNormalCtl
		}
		v, err := l.BinaryOp(n.Token, r)
		if err != nil {
			ri.noteThrow()
			return nil, ri.throwGo(err)
		}
		return v, riNormalCtl
	case *parser.CondExpr:
		cond, c := ri.eval(n.Cond, env)
		if c.kind != riNormal {
			return nil, c
		}
		if !cond.IsFalsy() {
			return ri.eval(n.True, env)
		}
		return ri.eval(n.False, env)
	case *parser.IndexExpr, *parser.SelectorExpr:
		// a chain x.a[i].b: the base, then every index expression left to
		// right, then the lookups
		var chain []parser.Expr
		cur := e
		for {
			if ix, ok := cur.(*parser.IndexExpr); ok {
				chain = append([]parser.Expr{ix.Index}, chain...)
				cur = ix.Expr
				continue
			}
			if sx, ok := cur.(*parser.SelectorExpr); ok {
				chain = append([]parser.Expr{sx.Sel}, chain...)
				cur = sx.Expr
				continue
			}
			break
		}
		base, c := ri.eval(cur, env)
		if c.kind != riNormal {
			return nil, c
		}
		idxs := make([]Object, len(chain))
		for k, ie := range chain {
			if idxs[k], c = ri.eval(ie, env); c.kind != riNormal {
				return nil, c
			}
		}
		for _, idx := range idxs {
			v, err := base.IndexGet(idx)
			if err != nil {
				ri.noteThrow()
				return nil, ri.throwGo(riIndexErr(err, base, idx))
			}
			base = v
		}
		return base, riNormalCtl
	case *parser.SliceExpr:
		return ri.evalSlice(n, env)
	case *parser.CallExpr:
		return ri.evalCall(n, env)
	case *parser.ImportExpr:
		return ri.evalImport(n)
	}
	ri.unsupported = "expression " + e.String()
	return Undefined, riNormalCtl
}

// riIndexErr: the VM reports which value was not indexable / which index was
// out of bounds.
func riIndexErr(err error, target, index Object) error {
	switch err {
	case ErrNotIndexable:
		return ErrNotIndexable.NewError(target.TypeName())
	case ErrNotIndexAssignable:
		return ErrNotIndexAssignable.NewError(target.TypeName())
	case ErrIndexOutOfBounds:
		return ErrIndexOutOfBounds.NewError(index.String())
	}
	return err
}

// riUnary: the documented unary operator table (docs/tutorial.md).
func riUnary(tok token.Token, v Object) (Object, error) {
	switch tok {
	case token.Not:
		return Bool(v.IsFalsy()), nil
	case token.Sub:
		switch o := v.(type) {
		case Int:
			return -o, nil
		case Uint:
			return -o, nil
		case Float:
			return -o, nil
		case Char:
			return Int(-o), nil
		case Bool:
			if o {
				return Int(-1), nil
			}
			return Int(0), nil
		}
	case token.Add:
		switch o := v.(type) {
		case Int, Uint, Float, Char:
			return v, nil
		case Bool:
			if o {
				return Int(1), nil
			}
			return Int(0), nil
		}
	case token.Xor:
		switch o := v.(type) {
		case Int:
			return ^o, nil
		case Uint:
			return ^o, nil
		case Char:
			return ^Int(o), nil // known deviation from the table (C15), value-equal
		case Bool:
			if o {
				return ^Int(1), nil
			}
			return ^Int(0), nil
		}
	}
	return nil, ErrType.NewError("invalid type for unary '" + tok.String() + "': '" + v.TypeName() + "'")
}

func (ri *refInterp) evalSlice(n *parser.SliceExpr, env *riEnv) (Object, riCtl) {
	base, c := ri.eval(n.Expr, env)
	if c.kind != riNormal {
		return nil, c
	}
	var lo, hi Object = Undefined, Undefined
	if n.Low != nil {
		if lo, c = ri.eval(n.Low, env); c.kind != riNormal {
			return nil, c
		}
	}
	if n.High != nil {
		if hi, c = ri.eval(n.High, env); c.kind != riNormal {
			return nil, c
		}
	}
	var length int
	switch b := base.(type) {
	case Array:
		length = len(b)
	case String:
		length = len(b)
	case Bytes:
		length = len(b)
	default:
		ri.noteThrow()
		return nil, ri.throwErr(ErrType.NewError(base.TypeName(), "cannot be sliced"))
	}
	l, h := 0, length
	idx := func(o Object, def int, which string) (int, bool) {
		switch v := o.(type) {
		case *UndefinedType:
			return def, true
		case Int:
			return int(v), true
		case Uint:
			return int(v), true
		case Char:
			return int(v), true
		}
		return 0, false
	}
	var ok bool
	if l, ok = idx(lo, 0, "first"); !ok {
		ri.noteThrow()
		return nil, ri.throwErr(ErrType.NewError("invalid first index type", lo.TypeName()))
	}
	if h, ok = idx(hi, length, "second"); !ok {
		ri.noteThrow()
		return nil, ri.throwErr(ErrType.NewError("invalid second index type", hi.TypeName()))
	}
	rng := "[" + strconv.Itoa(l) + ":" + strconv.Itoa(h) + "]"
	if l > h {
		ri.noteThrow()
		return nil, ri.throwErr(ErrInvalidIndex.NewError(rng))
	}
	if l < 0 || h < 0 || h > length {
		ri.noteThrow()
		return nil, ri.throwErr(ErrIndexOutOfBounds.NewError(rng))
	}
	switch b := base.(type) {
	case Array:
		return b[l:h], riNormalCtl
	case String:
		return b[l:h], riNormalCtl
	case Bytes:
		return b[l:h], riNormalCtl
	}
	return Undefined, riNormalCtl
}

func (ri *refInterp) evalCall(n *parser.CallExpr, env *riEnv) (Object, riCtl) {
	line := ri.line(n)
	var callee, recv Object
	var methodName string
	var c riCtl
	if sel, ok := n.Func.(*parser.SelectorExpr); ok {
		// x.name(args): a name call when x supports it, else an indexed callee
		recv, c = ri.eval(sel.Expr, env)
		if c.kind != riNormal {
			return nil, c
		}
		nameObj, c2 := ri.eval(sel.Sel, env)
		if c2.kind != riNormal {
			return nil, c2
		}
		methodName = nameObj.String()
		if _, isNC := recv.(NameCallerObject); !isNC {
			v, err := recv.IndexGet(nameObj)
			if err != nil {
				ri.noteThrow()
				return nil, ri.throwGo(err)
			}
			callee, recv = v, nil
		}
	} else {
		callee, c = ri.eval(n.Func, env)
		if c.kind != riNormal {
			return nil, c
		}
	}
	args := make([]Object, 0, len(n.Args))
	for _, a := range n.Args {
		v, c := ri.eval(a, env)
		if c.kind != riNormal {
			return nil, c
		}
		args = append(args, v)
	}
	ri.lastLine = line
	if n.Ellipsis.IsValid() {
		last := args[len(args)-1]
		arr, ok := last.(Array)
		if !ok {
			ri.noteThrow()
			return nil, ri.throwErr(NewArgumentTypeError("last", "array", last.TypeName()))
		}
		args = append(append([]Object{}, args[:len(args)-1]...), arr...)
	}
	if recv != nil {
		v, err := recv.(NameCallerObject).CallName(methodName, Call{args: args})
		if err != nil {
			ri.noteThrow()
			return nil, ri.throwGo(err)
		}
		return v, riNormalCtl
	}
	switch f := callee.(type) {
	case *riFunc:
		v, thr := ri.callFunc(f, args, line)
		if thr != nil {
			return nil, riCtl{kind: riThrow, err: thr}
		}
		return v, riNormalCtl
	}
	if !callee.CanCall() {
		ri.noteThrow()
		return nil, ri.throwErr(ErrNotCallable.NewError(callee.TypeName()))
	}
	v, err := callee.Call(args...)
	if err != nil {
		ri.noteThrow()
		return nil, ri.throwGo(err)
	}
	return v, riNormalCtl
}

// callFunc binds arguments as documented (fixed arity exact; variadic packs
// the tail into a new array) and runs the body in a fresh scope.
func (ri *refInterp) callFunc(f *riFunc, args []Object, line int) (Object, *RuntimeError) {
	params := f.lit.Type.Params
	np := len(params.List)
	variadic := params.VarArgs
	if !variadic {
		if len(args) != np {
			ri.lastLine = line
			ri.noteThrow()
			return nil, &RuntimeError{Err: ErrWrongNumArguments.NewError("want=" + strconv.Itoa(np) + " got=" + strconv.Itoa(len(args)))}
		}
	} else if len(args) < np-1 {
		ri.lastLine = line
		ri.noteThrow()
		return nil, &RuntimeError{Err: ErrWrongNumArguments.NewError("want>=" + strconv.Itoa(np-1) + " got=" + strconv.Itoa(len(args)))}
	}
	env := &riEnv{parent: f.env, fnTop: true}
	for i, id := range params.List {
		if variadic && i == np-1 {
			env.define(id.Name, append(Array{}, args[i:]...))
		} else {
			env.define(id.Name, args[i])
		}
	}
	ri.depth++
	if ri.depth > 900 {
		ri.unsupported = "recursion deeper than the reference interpreter supports"
		ri.depth--
		return Undefined, nil
	}
	savedFile := ri.file
	callerName := ""
	if savedFile != nil {
		callerName = savedFile.Name
	}
	ri.file = f.file
	ri.trace = append(ri.trace, line)
	ri.traceF = append(ri.traceF, callerName)
	c := ri.execStmts(f.lit.Body.Stmts, env)
	ri.trace = ri.trace[:len(ri.trace)-1]
	ri.traceF = ri.traceF[:len(ri.traceF)-1]
	ri.file = savedFile
	ri.depth--
	switch c.kind {
	case riReturn:
		return c.val, nil
	case riThrow:
		return nil, c.err
	}
	return Undefined, nil
}

// evalImport: a module is loaded once per run; every import of the same name
// yields the same object.
func (ri *refInterp) evalImport(n *parser.ImportExpr) (Object, riCtl) {
	if v, ok := ri.modules[n.ModuleName]; ok {
		return v, riNormalCtl
	}
	if ri.mm == nil {
		ri.unsupported = "import without module map"
		return Undefined, riNormalCtl
	}
	imp := ri.mm.Get(n.ModuleName)
	if imp == nil {
		ri.unsupported = "unknown module " + n.ModuleName
		return Undefined, riNormalCtl
	}
	data, err := imp.Import(n.ModuleName)
	if err != nil {
		ri.unsupported = "import error"
		return Undefined, riNormalCtl
	}
	switch d := data.(type) {
	case []byte:
		fs := parser.NewFileSet()
		sf := fs.AddFile(n.ModuleName, -1, len(d))
		pf, perr := parser.NewParser(sf, d, nil).ParseFile()
		if perr != nil {
			ri.unsupported = "module parse error"
			return Undefined, riNormalCtl
		}
		savedFile := ri.file
		callerName := ""
		if savedFile != nil {
			callerName = savedFile.Name
		}
		ri.trace = append(ri.trace, ri.line(n))
		ri.traceF = append(ri.traceF, callerName)
		ri.file = sf
		c := ri.execStmts(pf.Stmts, &riEnv{fnTop: true})
		ri.file = savedFile
		ri.trace = ri.trace[:len(ri.trace)-1]
		ri.traceF = ri.traceF[:len(ri.traceF)-1]
		var v Object = Undefined
		switch c.kind {
		case riReturn:
			v = c.val
		case riThrow:
			return nil, c
		}
		ri.modules[n.ModuleName] = v
		return v, riNormalCtl
	case Object:
		// builtin module: a private copy per run
		if cp, ok := d.(Copier); ok {
			d = cp.Copy()
		}
		ri.modules[n.ModuleName] = d
		return d, riNormalCtl
	}
	ri.unsupported = "module kind"
	return Undefined, riNormalCtl
}
