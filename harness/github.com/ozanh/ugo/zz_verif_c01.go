//go:build verif

package ugo

import (
	"errors"
	"math"
	"strconv"
	"strings"

	"github.com/ozanh/ugo/internal/verifrt"
	"github.com/ozanh/ugo/parser"
	"github.com/ozanh/ugo/token"
)

// ---------------------------------------------------------------------------
// F: program family. A program = binding form that may shadow a builtin name
// x builtin call with constant arguments x use site.

type verifBuiltinUse struct{ name, call string }

var verifC01Builtins = [...]verifBuiltinUse{
	{"int", `int("7")`},
	{"string", `string(7)`},
	{"len", `len("abc")`},
	{"bool", `bool(1)`},
	{"typeName", `typeName(1)`},
	{"isInt", `isInt(1)`},
	{"char", `char(65)`},
	{"float", `float(2)`},
	{"uint", `uint(3)`},
	{"contains", `contains("abc", "b")`},
	{"chars", `chars("ab")`},
	{"isError", `isError(1)`},
	{"error", `error("x")`},
	{"bytes", `bytes("a")`},
	{"isUndefined", `isUndefined(1)`},
	{"sprintf", `sprintf("%d", 5)`},
}

const verifC01NumForms = 22
const verifC01NumSites = 14

// verifC01Site wraps the call expression c into a statement sequence.
func verifC01Site(site int, c string) string {
	switch site {
	case 0:
		return "return " + c
	case 1:
		return "if " + c + " { return \"T\" }; return \"F\""
	case 2:
		return "x := [" + c + ", 1]; return x"
	case 3:
		return "x := {k: " + c + "}; return x"
	case 4:
		return "a := [10, 20, 30, 40, 50, 60, 70, 80]; return a[" + c + "]"
	case 5:
		return "a := [10, 20, 30, 40, 50, 60, 70, 80]; return a[" + c + ":]"
	case 6:
		return "throw " + c
	case 7:
		return "return " + c + " ? 1 : 2"
	case 8:
		return "out(" + c + "); return 0"
	case 9:
		return "return [" + c + " == " + c + ", " + c + " || 1, !" + c + "]"
	// sites 10-13: a const literal is visible, which makes the compiler run
	// its own optimizer pass (with a symbol table derived from the compiler's
	// scopes) on every binary and unary expression
	case 10:
		return "const kq = 2\nreturn [" + c + " == kq, kq]"
	case 11:
		return "const kq = 2\nif kq == 2 { return !(" + c + ") }\nreturn 0"
	case 12:
		return "const kq = 2\nw := func() { return [" + c + " != kq, -kq] }\nreturn w()"
	case 13:
		return "const kq = 2\nfor i := 0; i < 1; i++ { if i == 0 { return [kq, " + c + " == " + c + "] } }\nreturn 0"
	}
	return "return " + c
}

// verifC01Program builds program (form, builtin, site). Every form binds the
// builtin's NAME to something else (the shadow function sf prefixes "S").
func verifC01Program(form int, b verifBuiltinUse, site int) (src string, globalShadow bool) {
	n := b.name
	use := verifC01Site(site, b.call)
	if site >= 10 && site%2 == 1 && form != 3 && form != 4 {
		// odd const sites: the const literal is declared before the binding,
		// at the top level of the script
		use = strings.Replace(use, "const kq = 2\n", "", 1)
		src, globalShadow = verifC01ProgramWith(form, n, use)
		return "const kq = 2\n" + src, globalShadow
	}
	return verifC01ProgramWith(form, n, use)
}

func verifC01ProgramWith(form int, n, use string) (src string, globalShadow bool) {
	sf := `func(...a) { return "S" }`
	switch form {
	case 0: // :=
		return n + " := " + sf + "\n" + use, false
	case 1: // var
		return "var " + n + " = " + sf + "\n" + use, false
	case 2: // const
		return "const " + n + " = " + sf + "\n" + use, false
	case 3: // param
		return "param " + n + "\n" + use, false
	case 4: // global
		return "global " + n + "\n" + use, true
	case 5: // function parameter
		return "f := func(" + n + ") { " + use + " }\nreturn f(" + sf + ")", false
	case 6: // for-in key
		return "for " + n + ", v in {a: 1} { " + use + " }\nreturn \"none\"", false
	case 7: // for-in value
		return "sf := " + sf + "\nfor _, " + n + " in [sf] { " + use + " }\nreturn \"none\"", false
	case 8: // catch identifier
		return "try { throw \"x\" } catch " + n + " { " + use + " }\nreturn \"none\"", false
	case 9: // captured from an enclosing function scope
		return n + " := " + sf + "\ng := func() { " + use + " }\nreturn g()", false
	case 10: // block scope ends: builtin visible again
		return "if true { " + n + " := " + sf + "; " + n + "() }\n" + use, false
	case 11: // variadic function parameter
		return "f := func(..." + n + ") { " + use + " }\nreturn f(1, 2)", false
	case 12: // destructuring define
		return "[" + n + ", y] := [" + sf + ", 1]\n" + use, false
	case 13: // shadow defined AFTER use in source order inside a loop body
		return "r := undefined\nfor i := 0; i < 2; i++ { if i == 1 { " + use + " }; " + n + " := " + sf + "; r = " + n + " }\nreturn r", false
	case 14: // no shadowing at all (pure folding)
		return use, false
	case 15: // shadowed in a sibling function only
		return "g := func(" + n + ") { return " + n + " }\ng(1)\n" + use, false
	case 16: // defined in the try body, used in the catch block of the same statement
		return "try { " + n + " := " + sf + "; throw \"boom\" } catch err { " + use + " }\nreturn \"none\"", false
	case 17: // defined in the try body, used in the finally block
		return "try { " + n + " := " + sf + "; " + n + "() } finally { " + use + " }\nreturn \"none\"", false
	case 18: // defined in the catch block, used in the finally block
		return "try { throw \"boom\" } catch err { " + n + " := " + sf + "; " + n + "() } finally { " + use + " }\nreturn \"none\"", false
	case 19: // if-init scope
		return "if " + n + " := " + sf + "; true { " + use + " }\nreturn \"none\"", false
	case 20: // for-init scope
		return "for " + n + " := " + sf + "; true; { " + use + " }\nreturn \"none\"", false
	case 21: // nested block inside a function, used after an inner block closed
		return "f := func() { " + n + " := " + sf + "; if true { x := 1; x++ }; " + use + " }\nreturn f()", false
	}
	return use, false
}

func verifC01Run(src string, globalShadow bool, name string, opts CompilerOptions, args []Object) verifOutcome {
	var g Map
	if globalShadow {
		g = Map{name: &Function{Name: "shadow", Value: func(args ...Object) (Object, error) { return String("S"), nil }}}
	}
	return verifRun(src, opts, g, args...)
}

// verifOptimizerRefusalOK: the optimizer may refuse a script only by reporting,
// as an optimizer error, the runtime error of a constant sub-expression.
func verifOptimizerRefusalOK(unopt, opt verifOutcome) bool {
	if opt.compErr == nil || unopt.compErr != nil {
		return false
	}
	var oe *OptimizerError
	if !errors.As(opt.compErr, &oe) || oe.Node == nil {
		return false
	}
	// the reported error must be what the offending constant sub-expression
	// raises when it is evaluated on its own at run time
	sub := verifRun("return "+oe.Node.String(), CompilerOptions{NoOptimize: true}, nil)
	if sub.compErr != nil || sub.err == nil {
		return false
	}
	un, um := verifErrNameMsg(sub.err)
	on, om := verifErrNameMsg(oe.Err)
	return un == on && um == om
}

func verifC01Compare(src string, globalShadow bool, name string, limit int) {
	args := []Object{Int(verifrt.Int64("p0"))}
	o1 := verifC01Run(src, globalShadow, name, CompilerOptions{NoOptimize: true}, args)
	o2 := verifC01Run(src, globalShadow, name, verifOptsOn(limit), args)
	if o1.compErr == nil && o2.compErr != nil {
		verifrt.Assert(verifOptimizerRefusalOK(o1, o2), "optimizer-refusal-is-the-runtime-error")
	} else {
		verifrt.Assert((o1.compErr == nil) == (o2.compErr == nil), "optimizer-same-compilability")
		verifrt.Assert(verifSameOutcome(o1, o2), "optimizer-preserves-outcome")
	}
}

// VerifC01Shadow: one (form, builtin, site) program; params select it.
func VerifC01Shadow() {
	form := verifrt.Param("form")
	b := verifC01Builtins[verifrt.Param("builtin")]
	site := verifrt.Param("site")
	src, gs := verifC01Program(form, b, site)
	verifrt.Known("C01-forin-shadow", form == 6 || form == 7)
	verifrt.Known("C01-catch-shadow", form == 8)
	verifC01Compare(src, gs, b.name, verifrt.Param("limit"))
	verifrt.ClearKnown()
	verifrt.Reached("end")
}

// ---------------------------------------------------------------------------
// folding programs: constants, iota, operators on literals, mixed with
// symbolic parameters; run under several optimizer budgets.

var verifC01FoldProgs = [...]string{
	`param a; return 1 + 2 * 3 - a`,
	`param a; const (x = iota; y; z); return [x, y, z, a + z]`,
	`param a; const k = 2 * 8; var v = k + 1; return a > v ? k : v`,
	`param a; return (1 << 3 | 4 &^ 1) ^ a`,
	`param a; return "a" + "b" + string(a)`,
	`param a; x := 10 / 2; y := 7 % 3; return [x, y, x * a]`,
	`param a; return 1.5 + 2.25 * 2.0 - float(a)`,
	`param a; return [-(-3), ^5, !0, !1, -2.5, +3, -a]`,
	`param a; return [1 == 1.0, 2 < 3, "a" < "b", 'a' + 1, a == 1]`,
	`param a; if 1 > 2 { return "dead" } else if a { return "a" }; return 3 > 2 ? "live" : "dead"`,
	`param a; return [1 && 0, 0 || 2, a && 3, 0 || a, undefined || 1]`,
	`param a; f := func(x) { return x * (2 + 3) }; return f(a) + f(4 - 1)`,
	`param a; return 0.0 * -1.0`,
	`param a; x := 0.0; y := -0.0; return [string(x), string(y), a]`,
	`param a; return [1 / a, 2 - 1]`,
	`param a; try { return 1 % 0 } catch e { return "caught" }`,
	`param a; return a ? 1 << 2 : 1 >> 2`,
	`param a; return [int("12") + a, len("hello") * 2, typeName(1 + 2), bool(0) || a]`,
	`param a; x := 5; x += 2 * 3; x -= 1 + 1; return x + a`,
	`param a; return [9223372036854775807 + 1, -9223372036854775808 - 1, 1 << 63, 1 << 64, a]`,
	`param a; return [1u + 2u, 3u - 5u, uint(1) << 63, 5u / 2u, a]`,
	`param a; return ['a' + 'b', 'z' - 1, char(97) + 2, a]`,
	`param a; m := {x: 1 + 1, y: "s" + "t"}; return [m.x, m.y, m[a ? "x" : "y"]]`,
	`param a; return [1, 2, 3][1 + 1 - a]`,
	`param a; for i := 0; i < 2 + 1; i++ { if i == 1 + 1 { return i * a } }; return -1`,
	`param a; return sprintf("%d-%s", 1 + 2, "x" + "y") + string(a)`,
	// 26-33: const groups whose omitted values repeat the previous expression
	`param a; const k = 10; const (x = iota + k, y, z); return [x, y, z, a]`,
	`param a; const k = 10; f := func() { const (x = (iota + 1) * k, y, z); return [x, y, z] }; return [f(), a]`,
	`param a; const k = 3; const (x = -iota - k, y, z = "s" + "t", w); return [x, y, z, w, a]`,
	`param a; const k = 1; if a < 100 { const (x = k + 1, y, z); return [x, y, z] }; return k`,
	`param a; const k = 1; if true { const (x = k + 1, k, y); return [x, k, y, a] }; return 0`,
	`param a; const (p = 1 << iota, q, r); const (x = p + q, y = x * r); return [p, q, r, x, y, a]`,
	`param a; const k = 2; const (x = k * k, y, z); k2 := k + a; return [x, y, z, k2]`,
	`param a; const k = 7; g := func(k) { const (x = k + 1, y); return [x, y] }; return [g(a), k]`,
}

// VerifC01Fold: folding program "prog" at optimizer budget "limit".
func VerifC01Fold() {
	src := verifC01FoldProgs[verifrt.Param("prog")]
	verifrt.Known("C01-negzero-constant", verifrt.Param("prog") == 13 || verifrt.Param("prog") == 12)
	verifrt.Known("C01-const-group-repeated-expr-folded-in-place", verifrt.Param("prog") == 30)
	verifrt.NoPanic("compile-or-run-panic", func() {
		verifC01Compare(src, false, "", verifrt.Param("limit"))
	})
	verifrt.ClearKnown()
	verifrt.Reached("end")
}

// ---------------------------------------------------------------------------
// K1: folding tables against the VM's operators, over the whole scalar domain.

func verifLitObject(e parser.Expr) Object {
	switch v := e.(type) {
	case *parser.IntLit:
		return Int(v.Value)
	case *parser.UintLit:
		return Uint(v.Value)
	case *parser.FloatLit:
		return Float(v.Value)
	case *parser.CharLit:
		return Char(v.Value)
	case *parser.BoolLit:
		return Bool(v.Value)
	case *parser.StringLit:
		return String(v.Value)
	case *parser.UndefinedLit:
		return Undefined
	}
	return nil
}

func verifLit(name string, k int) parser.Expr {
	switch k {
	case 0:
		return &parser.IntLit{Value: verifrt.Int64(name + ".i")}
	case 1:
		return &parser.UintLit{Value: verifrt.Uint64(name + ".u")}
	case 2:
		return &parser.FloatLit{Value: verifrt.Float64Bits(name + ".f")}
	case 3:
		return &parser.CharLit{Value: rune(verifrt.Int32(name + ".c"))}
	case 4:
		return &parser.BoolLit{Value: verifrt.Bool(name + ".b")}
	case 5:
		n := verifrt.Choice(name+".len", 3)
		return &parser.StringLit{Value: verifrt.String(name+".s", n)}
	}
	return &parser.UndefinedLit{}
}

var verifFoldToks = [...]token.Token{
	token.Add, token.Sub, token.Mul, token.Quo, token.Rem, token.And, token.Or, token.Xor,
	token.AndNot, token.Shl, token.Shr, token.Less, token.LessEq, token.Greater, token.GreaterEq,
	token.Equal, token.NotEqual,
}

// VerifC01FoldBinary: if SimpleOptimizer.binaryop folds l <tok> r, the literal
// denotes exactly the value the operator computes at run time, and the fold
// itself never panics.
func VerifC01FoldBinary() {
	tok := verifFoldToks[verifrt.Param("tok")]
	l := verifLit("l", verifrt.Choice("l.kind", 7))
	r := verifLit("r", verifrt.Choice("r.kind", 7))
	so := &SimpleOptimizer{}
	var out parser.Expr
	var ok, panicked bool
	_, li := l.(*parser.IntLit)
	_, ri := r.(*parser.IntLit)
	if li && ri {
		rv := r.(*parser.IntLit).Value
		verifrt.Known("C01-fold-rem-zero-panic", tok == token.Rem && rv == 0)
		verifrt.Known("C01-fold-negative-shift-panic", (tok == token.Shl || tok == token.Shr) && rv < 0)
	}
	panicked = true
	verifrt.NoPanic("fold-no-panic", func() {
		out, ok = so.binaryop(tok, l, r)
		panicked = false
	})
	verifrt.ClearKnown()
	if ok && !panicked {
		lo, ro := verifLitObject(l), verifLitObject(r)
		var want Object
		var err error
		switch tok {
		case token.Equal:
			want = Bool(lo.Equal(ro))
		case token.NotEqual:
			want = Bool(!lo.Equal(ro))
		default:
			want, err = lo.BinaryOp(tok, ro)
		}
		verifrt.Assert(err == nil, "fold-only-where-operator-defined")
		if err == nil {
			verifrt.Assert(verifSameObject(verifLitObject(out), want), "fold-equals-runtime-operator")
		}
		verifrt.Reached("folded")
	}
	verifrt.Reached("end")
}

// VerifC01FoldUnary: same for unaryop against the VM's OpUnary.
func VerifC01FoldUnary() {
	toks := [...]token.Token{token.Add, token.Sub, token.Xor, token.Not}
	tok := toks[verifrt.Choice("tok", len(toks))]
	x := verifLit("x", verifrt.Choice("x.kind", 7))
	so := &SimpleOptimizer{}
	var out parser.Expr
	var ok bool
	verifrt.NoPanic("fold-no-panic", func() { out, ok = so.unaryop(tok, x) })
	if ok {
		want, err := verifRunUnary(tok, verifLitObject(x))
		verifrt.Assert(err == nil, "fold-only-where-operator-defined")
		if err == nil {
			verifrt.Assert(verifSameObject(verifLitObject(out), want), "fold-equals-runtime-operator")
		}
		verifrt.Reached("folded")
	}
	verifrt.Reached("end")
}

// VerifC01Falsy: isLiteralFalsy agrees with IsFalsy of the denoted value.
func VerifC01Falsy() {
	x := verifLit("x", verifrt.Choice("x.kind", 7))
	f, ok := isLiteralFalsy(x)
	if ok {
		verifrt.Assert(f == verifLitObject(x).IsFalsy(), "literal-falsy-equals-runtime-falsy")
		verifrt.Reached("decided")
	}
	verifrt.Reached("end")
}

// VerifC01ConstPool: the constant pool hands back, for every added constant,
// an index holding a constant identical in type and bits.
func VerifC01ConstPool() {
	c := &Compiler{constsCache: make(map[Object]int)}
	n := 3
	var objs [3]Object
	var idx [3]int
	for i := 0; i < n; i++ {
		k := verifrt.Choice("k", 6)
		switch k {
		case 5:
			objs[i] = String(verifrt.String("s", verifrt.Choice("len", 2)))
		default:
			objs[i] = verifScalar("c", k)
		}
		idx[i] = c.addConstant(objs[i])
	}
	for i := 0; i < n; i++ {
		f, isF := objs[i].(Float)
		verifrt.Known("C01-negzero-constant", isF && float64(f) == 0)
		verifrt.Assert(idx[i] >= 0 && idx[i] < len(c.constants), "const-index-in-range")
		if idx[i] >= 0 && idx[i] < len(c.constants) {
			got := c.constants[idx[i]]
			if isF && math.IsNaN(float64(f)) {
				g, ok := got.(Float)
				verifrt.Assert(ok && math.IsNaN(float64(g)), "const-pool-identity")
			} else {
				verifrt.Assert(verifSameObject(got, objs[i]), "const-pool-identity")
			}
		}
		verifrt.ClearKnown()
	}
	verifrt.Reached("end")
}

var _ = strconv.Itoa
