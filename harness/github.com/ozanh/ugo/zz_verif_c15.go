//go:build verif

package ugo

import (
	"errors"
	"math"

	"github.com/ozanh/ugo/internal/verifrt"
	"github.com/ozanh/ugo/token"
)

func isKinds(ka, kb, x, y int) bool {
	return ka == x && kb == y || ka == y && kb == x
}

// hasKindPair reports whether the pair of (kind, element kinds) contains the
// unordered kind pair (x,y) at the top level or at the same container slot.
type vkObj struct {
	o     Object
	k     int
	elems []int
}

func verifObjectK(name string, nkinds, maxLen int) vkObj {
	k := verifrt.Choice(name+".kind", nkinds)
	switch k {
	case vkArray, vkMap:
		n := verifrt.Choice(name+".len", maxLen+1)
		eks := make([]int, n)
		if k == vkArray {
			arr := make(Array, n)
			for i := range arr {
				eks[i] = verifrt.Choice(name+".ek", vkUndefined+1)
				arr[i] = verifScalar(name+".e", eks[i])
			}
			return vkObj{arr, k, eks}
		}
		// n entries under any n of the keys a, b, c: two maps of one size may
		// have different key sets
		m := make(Map, n)
		keys := []string{"a", "b", "c"}
		for i, ki := 0, 0; i < n; i++ {
			for ki < len(keys)-(n-i) && verifrt.Choice(name+".skip", 2) == 1 {
				ki++
			}
			eks[i] = verifrt.Choice(name+".ek", vkUndefined+1)
			m[keys[ki]] = verifScalar(name+".e", eks[i])
			ki++
		}
		return vkObj{m, k, eks}
	case vkString:
		n := verifrt.Choice(name+".len", maxLen+1)
		return vkObj{String(verifrt.String(name+".s", n)), k, nil}
	case vkBytes:
		n := verifrt.Choice(name+".len", maxLen+1)
		return vkObj{Bytes(verifrt.Bytes(name+".y", n)), k, nil}
	}
	return vkObj{verifScalar(name, k), k, nil}
}

func pairHas(a, b vkObj, x, y int) bool {
	if isKinds(a.k, b.k, x, y) {
		return true
	}
	if a.k == b.k && (a.k == vkArray || a.k == vkMap) && len(a.elems) == len(b.elems) {
		for i := range a.elems {
			if isKinds(a.elems[i], b.elems[i], x, y) {
				return true
			}
		}
	}
	return false
}

// VerifC15EqSym: a == b gives the same answer as b == a, for all pairs of
// values of all built-in kinds (scalars fully symbolic; strings/bytes/arrays/
// maps up to maxlen elements).
func VerifC15EqSym() {
	nk := verifrt.Param("nkinds")
	ml := verifrt.Param("maxlen")
	a := verifObjectK("a", nk, ml)
	if ka := verifrt.Param("ka"); ka >= 0 {
		verifrt.Assume(a.k == ka)
	}
	b := verifObjectK("b", nk, ml)
	var l, r bool
	verifrt.NoPanic("eq-no-panic", func() {
		l, r = a.o.Equal(b.o), b.o.Equal(a.o)
	})
	verifrt.Known("C15-eq-bool-float", pairHas(a, b, vkBool, vkFloat))
	verifrt.Known("C15-eq-bool-char", pairHas(a, b, vkBool, vkChar))
	verifrt.Known("C15-eq-float-char", pairHas(a, b, vkFloat, vkChar))
	verifrt.Assert(l == r, "eq-symmetric")
	verifrt.ClearKnown()
	verifrt.Reached("end")
}

// verifMiniVM runs a hand-assembled function "return p0 <op> p1" (or unary)
// through the real VM loop.
func verifRunBinary(op Opcode, tok token.Token, a, b Object) (Object, error) {
	var insts []byte
	insts = append(insts, byte(OpGetLocal), 0, byte(OpGetLocal), 1)
	switch op {
	case OpBinaryOp:
		insts = append(insts, byte(OpBinaryOp), byte(tok))
	default:
		insts = append(insts, byte(op))
	}
	insts = append(insts, byte(OpReturn), 1)
	bc := &Bytecode{Main: &CompiledFunction{NumParams: 2, NumLocals: 2, Instructions: insts}}
	return NewVM(bc).SetRecover(false).Run(nil, a, b)
}

func verifRunUnary(tok token.Token, a Object) (Object, error) {
	insts := []byte{byte(OpGetLocal), 0, byte(OpUnary), byte(tok), byte(OpReturn), 1}
	bc := &Bytecode{Main: &CompiledFunction{NumParams: 1, NumLocals: 1, Instructions: insts}}
	return NewVM(bc).SetRecover(false).Run(nil, a)
}

// VerifC15NotEqual: through the VM, a != b is the negation of a == b and the
// VM's == is the Equal method.
func VerifC15NotEqual() {
	nk := verifrt.Param("nkinds")
	a := verifObjectK("a", nk, 1)
	b := verifObjectK("b", nk, 1)
	var eq, ne Object
	var e1, e2 error
	verifrt.NoPanic("vm-eq-no-panic", func() {
		eq, e1 = verifRunBinary(OpEqual, 0, a.o, b.o)
		ne, e2 = verifRunBinary(OpNotEqual, 0, a.o, b.o)
	})
	verifrt.Assert(e1 == nil && e2 == nil, "vm-eq-no-error")
	if e1 == nil && e2 == nil {
		eb, ok1 := eq.(Bool)
		nb, ok2 := ne.(Bool)
		verifrt.Assert(ok1 && ok2, "vm-eq-returns-bool")
		verifrt.Assert(bool(eb) != bool(nb), "ne-is-negation")
		verifrt.Assert(bool(eb) == a.o.Equal(b.o), "vm-eq-is-Equal")
	}
	verifrt.Reached("end")
}

var verifRelToks = [...]token.Token{token.Less, token.LessEq, token.Greater, token.GreaterEq}

func verifIsNaN(o Object) bool {
	f, ok := o.(Float)
	return ok && math.IsNaN(float64(f))
}

// VerifC15Order: where <, <=, >, >= are all defined for the pair in both
// operand orders, exactly one of a<b, a==b, a>b holds (NaN aside), a<=b means
// a<b or a==b, and a<b equals b>a. Never a panic.
func VerifC15Order() {
	nk := verifrt.Param("nkinds") // scalars, undefined, string, bytes
	a := verifObjectK("a", nk, 2)
	b := verifObjectK("b", nk, 2)
	var ab, ba [4]bool
	defined := true
	definedAB, definedBA := true, true
	verifrt.NoPanic("rel-no-panic", func() {
		for i, tok := range verifRelToks {
			v, err := a.o.BinaryOp(tok, b.o)
			if err != nil {
				definedAB = false
			} else {
				bv, ok := v.(Bool)
				verifrt.Assert(ok, "rel-returns-bool")
				ab[i] = bool(bv)
			}
			v, err = b.o.BinaryOp(tok, a.o)
			if err != nil {
				definedBA = false
			} else {
				bv, ok := v.(Bool)
				verifrt.Assert(ok, "rel-returns-bool")
				ba[i] = bool(bv)
			}
		}
	})
	defined = definedAB && definedBA
	if definedAB != definedBA {
		verifrt.Note("relational operators defined in one operand order only: " + vkNames[a.k] + " vs " + vkNames[b.k])
	}
	if defined {
		verifrt.Assume(!verifIsNaN(a.o) && !verifIsNaN(b.o))
		eq := a.o.Equal(b.o)
		lt, le, gt, ge := ab[0], ab[1], ab[2], ab[3]
		// equality known findings leak into trichotomy for these pairs
		verifrt.Known("C15-eq-bool-float", pairHas(a, b, vkBool, vkFloat))
		verifrt.Known("C15-eq-bool-char", pairHas(a, b, vkBool, vkChar))
		verifrt.Known("C15-eq-float-char", pairHas(a, b, vkFloat, vkChar))
		n := 0
		if lt {
			n++
		}
		if eq {
			n++
		}
		if gt {
			n++
		}
		verifrt.Assert(n == 1, "trichotomy")
		verifrt.Assert(le == (lt || eq), "le-is-lt-or-eq")
		verifrt.Assert(ge == (gt || eq), "ge-is-gt-or-eq")
		verifrt.ClearKnown()
		verifrt.Assert(lt == ba[2], "lt-is-flipped-gt")
		verifrt.Assert(gt == ba[0], "gt-is-flipped-lt")
		verifrt.Assert(le == ba[3], "le-is-flipped-ge")
		verifrt.Assert(ge == ba[1], "ge-is-flipped-le")
		verifrt.Reached("defined")
	}
	verifrt.Reached("end")
}

// ---------------------------------------------------------------------------
// refops: the operator table of docs/operators.md as a pure function.

const (
	refOK = iota
	refTypeError
	refZeroDiv
	refSomeError // an error is required, the docs do not name its kind
)

type refVal struct {
	k int // vkInt, vkUint, vkFloat, vkChar, vkBool
	i int64
	u uint64
	f float64
	c int32
	b bool
}

func refOf(o Object) refVal {
	switch v := o.(type) {
	case Int:
		return refVal{k: vkInt, i: int64(v)}
	case Uint:
		return refVal{k: vkUint, u: uint64(v)}
	case Float:
		return refVal{k: vkFloat, f: float64(v)}
	case Char:
		return refVal{k: vkChar, c: int32(v)}
	case Bool:
		return refVal{k: vkBool, b: bool(v)}
	}
	return refVal{k: vkUndefined}
}

func (r refVal) toObject() Object {
	switch r.k {
	case vkInt:
		return Int(r.i)
	case vkUint:
		return Uint(r.u)
	case vkFloat:
		return Float(r.f)
	case vkChar:
		return Char(r.c)
	case vkBool:
		return Bool(r.b)
	}
	return Undefined
}

func refConv(v refVal, k int) refVal {
	if v.k == k {
		return v
	}
	switch k {
	case vkInt:
		switch v.k {
		case vkBool:
			if v.b {
				return refVal{k: vkInt, i: 1}
			}
			return refVal{k: vkInt, i: 0}
		}
	case vkUint:
		switch v.k {
		case vkInt:
			return refVal{k: vkUint, u: uint64(v.i)}
		}
	case vkFloat:
		switch v.k {
		case vkInt:
			return refVal{k: vkFloat, f: float64(v.i)}
		case vkUint:
			return refVal{k: vkFloat, f: float64(v.u)}
		}
	case vkChar:
		switch v.k {
		case vkInt:
			return refVal{k: vkChar, c: int32(v.i)}
		case vkUint:
			return refVal{k: vkChar, c: int32(v.u)}
		}
	}
	panic("refConv: no documented conversion")
}

func refUntyped(b bool, k int) refVal {
	n := int64(0)
	if b {
		n = 1
	}
	switch k {
	case vkUint:
		return refVal{k: vkUint, u: uint64(n)}
	case vkFloat:
		return refVal{k: vkFloat, f: float64(n)}
	case vkChar:
		return refVal{k: vkChar, c: int32(n)}
	}
	return refVal{k: vkInt, i: n}
}

func isRel(tok token.Token) bool {
	return tok == token.Less || tok == token.LessEq || tok == token.Greater || tok == token.GreaterEq
}

// refBinary returns the documented result of x tok y for scalar operands.
func refBinary(tok token.Token, x, y refVal) (refVal, int) {
	// "bool values are treated as untyped 1 or 0": an untyped constant takes
	// the type of the other operand (int when both are bool).
	if x.k == vkBool {
		x = refUntyped(x.b, y.k)
	}
	if y.k == vkBool {
		y = refUntyped(y.b, x.k)
	}
	var k int
	switch {
	case x.k == vkFloat || y.k == vkFloat:
		if x.k == vkChar || y.k == vkChar {
			return refVal{}, refTypeError
		}
		k = vkFloat
	case x.k == vkChar || y.k == vkChar:
		k = vkChar
		if x.k != y.k {
			// char with int/uint: only + - and the relational operators
			if !(tok == token.Add || tok == token.Sub || isRel(tok)) {
				return refVal{}, refTypeError
			}
		}
	case x.k == vkUint || y.k == vkUint:
		k = vkUint
	default:
		k = vkInt
	}
	x, y = refConv(x, k), refConv(y, k)
	bres := func(b bool) (refVal, int) { return refVal{k: vkBool, b: b}, refOK }
	switch k {
	case vkFloat:
		switch tok {
		case token.Add:
			return refVal{k: k, f: x.f + y.f}, refOK
		case token.Sub:
			return refVal{k: k, f: x.f - y.f}, refOK
		case token.Mul:
			return refVal{k: k, f: x.f * y.f}, refOK
		case token.Quo:
			if y.f == 0 {
				return refVal{}, refZeroDiv
			}
			return refVal{k: k, f: x.f / y.f}, refOK
		case token.Less:
			return bres(x.f < y.f)
		case token.LessEq:
			return bres(x.f <= y.f)
		case token.Greater:
			return bres(x.f > y.f)
		case token.GreaterEq:
			return bres(x.f >= y.f)
		}
		return refVal{}, refTypeError
	case vkInt:
		a, b := x.i, y.i
		switch tok {
		case token.Add:
			return refVal{k: k, i: a + b}, refOK
		case token.Sub:
			return refVal{k: k, i: a - b}, refOK
		case token.Mul:
			return refVal{k: k, i: a * b}, refOK
		case token.Quo:
			if b == 0 {
				return refVal{}, refZeroDiv
			}
			return refVal{k: k, i: a / b}, refOK
		case token.Rem:
			if b == 0 {
				return refVal{}, refZeroDiv
			}
			return refVal{k: k, i: a % b}, refOK
		case token.And:
			return refVal{k: k, i: a & b}, refOK
		case token.Or:
			return refVal{k: k, i: a | b}, refOK
		case token.Xor:
			return refVal{k: k, i: a ^ b}, refOK
		case token.AndNot:
			return refVal{k: k, i: a &^ b}, refOK
		case token.Shl:
			if b < 0 {
				return refVal{}, refSomeError
			}
			return refVal{k: k, i: a << uint64(b)}, refOK
		case token.Shr:
			if b < 0 {
				return refVal{}, refSomeError
			}
			return refVal{k: k, i: a >> uint64(b)}, refOK
		case token.Less:
			return bres(a < b)
		case token.LessEq:
			return bres(a <= b)
		case token.Greater:
			return bres(a > b)
		case token.GreaterEq:
			return bres(a >= b)
		}
	case vkUint:
		a, b := x.u, y.u
		switch tok {
		case token.Add:
			return refVal{k: k, u: a + b}, refOK
		case token.Sub:
			return refVal{k: k, u: a - b}, refOK
		case token.Mul:
			return refVal{k: k, u: a * b}, refOK
		case token.Quo:
			if b == 0 {
				return refVal{}, refZeroDiv
			}
			return refVal{k: k, u: a / b}, refOK
		case token.Rem:
			if b == 0 {
				return refVal{}, refZeroDiv
			}
			return refVal{k: k, u: a % b}, refOK
		case token.And:
			return refVal{k: k, u: a & b}, refOK
		case token.Or:
			return refVal{k: k, u: a | b}, refOK
		case token.Xor:
			return refVal{k: k, u: a ^ b}, refOK
		case token.AndNot:
			return refVal{k: k, u: a &^ b}, refOK
		case token.Shl:
			return refVal{k: k, u: a << b}, refOK
		case token.Shr:
			return refVal{k: k, u: a >> b}, refOK
		case token.Less:
			return bres(a < b)
		case token.LessEq:
			return bres(a <= b)
		case token.Greater:
			return bres(a > b)
		case token.GreaterEq:
			return bres(a >= b)
		}
	case vkChar:
		a, b := x.c, y.c
		switch tok {
		case token.Add:
			return refVal{k: k, c: a + b}, refOK
		case token.Sub:
			return refVal{k: k, c: a - b}, refOK
		case token.Mul:
			return refVal{k: k, c: a * b}, refOK
		case token.Quo:
			if b == 0 {
				return refVal{}, refZeroDiv
			}
			return refVal{k: k, c: a / b}, refOK
		case token.Rem:
			if b == 0 {
				return refVal{}, refZeroDiv
			}
			return refVal{k: k, c: a % b}, refOK
		case token.And:
			return refVal{k: k, c: a & b}, refOK
		case token.Or:
			return refVal{k: k, c: a | b}, refOK
		case token.Xor:
			return refVal{k: k, c: a ^ b}, refOK
		case token.AndNot:
			return refVal{k: k, c: a &^ b}, refOK
		case token.Shl:
			if b < 0 {
				return refVal{}, refSomeError
			}
			return refVal{k: k, c: a << uint32(b)}, refOK
		case token.Shr:
			if b < 0 {
				return refVal{}, refSomeError
			}
			return refVal{k: k, c: a >> uint32(b)}, refOK
		case token.Less:
			return bres(a < b)
		case token.LessEq:
			return bres(a <= b)
		case token.Greater:
			return bres(a > b)
		case token.GreaterEq:
			return bres(a >= b)
		}
	}
	return refVal{}, refTypeError
}

func verifSameScalar(got Object, want refVal) bool {
	switch want.k {
	case vkInt:
		v, ok := got.(Int)
		return ok && int64(v) == want.i
	case vkUint:
		v, ok := got.(Uint)
		return ok && uint64(v) == want.u
	case vkChar:
		v, ok := got.(Char)
		return ok && int32(v) == want.c
	case vkBool:
		v, ok := got.(Bool)
		return ok && bool(v) == want.b
	case vkFloat:
		v, ok := got.(Float)
		if !ok {
			return false
		}
		gf := float64(v)
		// bit-for-bit (so -0.0 != 0.0); all NaNs are one value
		return math.Float64bits(gf) == math.Float64bits(want.f) || (gf != gf && want.f != want.f)
	}
	return false
}

var verifArithToks = [...]token.Token{
	token.Add, token.Sub, token.Mul, token.Quo, token.Rem, token.And, token.Or, token.Xor,
	token.AndNot, token.Shl, token.Shr, token.Less, token.LessEq, token.Greater, token.GreaterEq,
}

func verifErrKind(err error) int {
	switch {
	case err == nil:
		return refOK
	case errors.Is(err, ErrZeroDivision):
		return refZeroDiv
	case errors.Is(err, ErrType):
		return refTypeError
	}
	return refSomeError
}

// VerifC15Arith: every binary operator on int/uint/float/char/bool operands
// returns the documented result (refBinary) or the documented error, and
// never panics. Param "via" selects the entry point: 0 = BinaryOp method,
// 1 = compiled OpBinaryOp through the VM loop.
func VerifC15Arith() {
	ti := verifrt.Param("tok")
	tok := verifArithToks[ti]
	ka := verifrt.Choice("a.kind", vkBool+1)
	kb := verifrt.Choice("b.kind", vkBool+1)
	a := verifScalar("a", ka)
	b := verifScalar("b", kb)
	want, wantErr := refBinary(tok, refOf(a), refOf(b))

	var got Object
	var err error
	// known findings of the unchanged tree
	intLike := func(k int) bool { return k == vkInt || k == vkUint || k == vkBool }
	verifrt.Known("C15-int-char-relational-widening", isRel(tok) && (intLike(ka) && kb == vkChar || ka == vkChar && intLike(kb)))
	boolLHS := ka == vkBool && (kb == vkFloat || kb == vkChar)
	verifrt.Known("C15-bool-lhs-float-char-typeerror", boolLHS)
	verifrt.Known("C15-rem-zero-panic", !boolLHS && tok == token.Rem && wantErr == refZeroDiv)
	verifrt.Known("C15-negative-shift-panic", !boolLHS && (tok == token.Shl || tok == token.Shr) && wantErr == refSomeError)
	verifrt.NoPanic("binaryop-no-panic", func() {
		if verifrt.Param("via") == 1 {
			got, err = verifRunBinary(OpBinaryOp, tok, a, b)
		} else {
			got, err = a.BinaryOp(tok, b)
		}
	})
	if got == nil && err == nil {
		// the call panicked (already recorded)
		verifrt.ClearKnown()
		verifrt.Reached("end")
		return
	}
	gotErr := verifErrKind(err)
	switch wantErr {
	case refOK:
		verifrt.Assert(gotErr == refOK, "defined-op-returns-value")
		if gotErr == refOK {
			verifrt.Assert(verifSameScalar(got, want), "result-equals-go-operation")
		}
	case refSomeError:
		verifrt.Assert(gotErr != refOK, "undefined-op-returns-error")
	default:
		verifrt.Assert(gotErr == wantErr, "documented-error-kind")
	}
	verifrt.ClearKnown()
	verifrt.Reached("end")
}

// VerifC15Unary: unary + - ^ ! through the VM against the documented table.
func VerifC15Unary() {
	toks := [...]token.Token{token.Add, token.Sub, token.Xor, token.Not}
	tok := toks[verifrt.Choice("tok", len(toks))]
	ka := verifrt.Choice("a.kind", vkUndefined+1)
	a := verifScalar("a", ka)
	var got Object
	var err error
	verifrt.NoPanic("unary-no-panic", func() { got, err = verifRunUnary(tok, a) })
	if got == nil && err == nil {
		verifrt.Reached("end")
		return
	}
	r := refOf(a)
	var want refVal
	wantErr := refOK
	switch tok {
	case token.Not:
		want = refVal{k: vkBool, b: a.IsFalsy()}
		// documented falsiness
		var falsy bool
		switch ka {
		case vkInt:
			falsy = r.i == 0
		case vkUint:
			falsy = r.u == 0
		case vkFloat:
			falsy = math.IsNaN(r.f)
		case vkChar:
			falsy = r.c == 0
		case vkBool:
			falsy = !r.b
		case vkUndefined:
			falsy = true
		}
		verifrt.Assert(a.IsFalsy() == falsy, "isfalsy-documented")
	case token.Add:
		switch ka {
		case vkInt, vkUint, vkFloat, vkChar:
			want = r
		case vkBool:
			want = refConv(r, vkInt)
		default:
			wantErr = refTypeError
		}
	case token.Sub:
		switch ka {
		case vkInt:
			want = refVal{k: vkInt, i: -r.i}
		case vkUint:
			want = refVal{k: vkUint, u: -r.u}
		case vkFloat:
			want = refVal{k: vkFloat, f: -r.f}
		case vkChar:
			want = refVal{k: vkInt, i: int64(-r.c)} // tutorial: char(int); Go operation on the rune, result int
		case vkBool:
			want = refVal{k: vkInt, i: -refConv(r, vkInt).i}
		default:
			wantErr = refTypeError
		}
	case token.Xor:
		switch ka {
		case vkInt:
			want = refVal{k: vkInt, i: ^r.i}
		case vkUint:
			want = refVal{k: vkUint, u: ^r.u}
		case vkChar:
			want = refVal{k: vkChar, c: ^r.c} // tutorial: char(char)
		case vkBool:
			want = refVal{k: vkInt, i: ^refConv(r, vkInt).i}
		default:
			wantErr = refTypeError
		}
	}
	verifrt.Known("C15-unary-xor-char-yields-int", tok == token.Xor && ka == vkChar)
	gotErr := refOK
	if err != nil {
		gotErr = refSomeError
		if errors.Is(err, ErrType) {
			gotErr = refTypeError
		}
	}
	if wantErr == refOK {
		verifrt.Assert(gotErr == refOK, "unary-defined")
		if gotErr == refOK {
			verifrt.Assert(verifSameScalar(got, want), "unary-result")
		}
	} else {
		verifrt.Assert(gotErr == refTypeError, "unary-typeerror")
	}
	verifrt.ClearKnown()
	verifrt.Reached("end")
}
