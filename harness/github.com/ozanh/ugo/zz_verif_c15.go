//go:build verif

package ugo

import (
	"github.com/ozanh/ugo/internal/verifrt"
)

func isKinds(ka, kb, x, y int) bool {
	return ka == x && kb == y || ka == y && kb == x
}

// VerifC15EqSym: a == b gives the same answer as b == a, for all pairs of
// values of all built-in kinds (scalars fully symbolic; strings/bytes/arrays/
// maps up to 2 elements).
func VerifC15EqSym() {
	nk := verifrt.Param("nkinds")
	a, ka := verifObject("a", nk, 2)
	b, kb := verifObject("b", nk, 2)
	var l, r bool
	verifrt.NoPanic("eq-no-panic", func() {
		l, r = a.Equal(b), b.Equal(a)
	})
	verifrt.Known("C15-eq-bool-float", isKinds(ka, kb, vkBool, vkFloat))
	verifrt.Known("C15-eq-bool-char", isKinds(ka, kb, vkBool, vkChar))
	verifrt.Known("C15-eq-float-char", isKinds(ka, kb, vkFloat, vkChar))
	verifrt.Assert(l == r, "eq-symmetric")
	verifrt.ClearKnown()
	verifrt.Reached("end")
}
