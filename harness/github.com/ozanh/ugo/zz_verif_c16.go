//go:build verif

package ugo

import (
	"strings"

	"github.com/ozanh/ugo/internal/verifrt"
	"github.com/ozanh/ugo/parser"
)

// VerifC16LineTable: SourceFileSet.Position over a symbolic sorted line table
// and a symbolic position: line = number of line starts <= offset, column =
// offset - start of that line + 1, and the position lies inside the file.
func VerifC16LineTable() {
	fs := parser.NewFileSet()
	nfiles := 1 + verifrt.Choice("nfiles", 2)
	const size = 40
	var files []*parser.SourceFile
	var lines [][]int
	for f := 0; f < nfiles; f++ {
		sf := fs.AddFile("f", -1, size)
		nl := verifrt.Choice("nlines", 4)
		ls := []int{0}
		prev := 0
		for i := 0; i < nl; i++ {
			off := int(verifrt.Int64("off"))
			verifrt.Assume(off > prev && off < size)
			sf.AddLine(off)
			ls = append(ls, off)
			prev = off
		}
		files = append(files, sf)
		lines = append(lines, ls)
	}
	fi := verifrt.Choice("file", nfiles)
	sf := files[fi]
	off := int(verifrt.Int64("p"))
	verifrt.Assume(off >= 0 && off <= size)
	p := parser.Pos(sf.Base + off)
	var pos parser.SourceFilePos
	verifrt.NoPanic("position-no-panic", func() { pos = fs.Position(p) })
	wantLine, start := 0, 0
	for _, l := range lines[fi] {
		if l <= off {
			wantLine++
			start = l
		}
	}
	verifrt.Assert(pos.Line == wantLine, "line-is-number-of-line-starts-before")
	verifrt.Assert(pos.Column == off-start+1, "column-is-offset-in-line")
	verifrt.Assert(pos.Offset == off && pos.Filename == "f", "position-inside-named-file")
	verifrt.Reached("end")
}

// VerifC16SourcePos: CompiledFunction.SourcePos returns the position recorded
// for the nearest instruction at or before ip.
func VerifC16SourcePos() {
	n := 1 + verifrt.Choice("n", 3)
	cf := &CompiledFunction{SourceMap: map[int]int{}}
	keys := make([]int, n)
	vals := make([]int, n)
	for i := 0; i < n; i++ {
		keys[i] = int(verifrt.Int64("k"))
		vals[i] = 100 + i
		verifrt.Assume(keys[i] >= 0 && keys[i] <= 12)
		for j := 0; j < i; j++ {
			verifrt.Assume(keys[j] != keys[i])
		}
		cf.SourceMap[keys[i]] = vals[i]
	}
	ip := int(verifrt.Int64("ip"))
	verifrt.Assume(ip >= -1 && ip <= 14)
	got := cf.SourcePos(ip)
	best, want := -1, 0
	for i := 0; i < n; i++ {
		if keys[i] <= ip && keys[i] > best {
			best, want = keys[i], vals[i]
		}
	}
	verifrt.Assert(int(got) == want, "nearest-lower-source-position")
	verifrt.Reached("end")
}

// C16 family: one statement per line; an error escapes from call depth 0..4.
var verifC16Progs = [...]string{
	// 0: thrown value at depth 0..3, site chosen by the parameter
	`param a
f3 := func(x) {
	if x == 3 { throw "deep" }
	return x
}
f2 := func(x) {
	if x == 2 { throw "mid" }
	return f3(x)
}
f1 := func(x) {
	if x == 1 { throw "top" }
	return f2(x)
}
if a == 0 { throw "main" }
r := f1(a)
return r`,
	// 1: failing operators at different depths
	`param a
div := func(x) {
	return 10 / x
}
idx := func(x) {
	arr := [1, 2]
	return arr[x]
}
g := func(x) {
	if x > 5 {
		return idx(x)
	}
	return div(x)
}
return g(a)`,
	// 2: failing builtin and wrong argument count
	`param a
two := func(x, y) {
	return x + y
}
h := func(x) {
	if x == 0 {
		return two(x)
	}
	if x == 1 {
		return int("nope" + x, 1, 2, 3)
	}
	return undefined(x)
}
k := func(x) {
	return h(x)
}
return k(a)`,
	// 3: same-shaped functions on different lines
	`param a
w1 := func(x) {
	return 1 / x
}
w2 := func(x) {
	return 1 / x
}
c1 := func(g, x) { return g(x) }
c2 := func(g, x) { return g(x) }
if a == 0 {
	return c1(w1, a)
}
return c2(w2, a - 1)`,
	// 4: wrapper chain of identical wrappers
	`param a
base := func() {
	return [][a]
}
wa := func() { return base() }
wb := func() { return wa() }
wc := func() { return wb() }
return wc()`,
	// 5: error inside a closure created in a loop, called later
	`param a
fs := []
for i := 0; i < 2; i++ {
	fs = append(fs, func(x) {
		return x / (i - 2)
	})
}
run := func(f) {
	return f(a)
}
return run(fs[a & 1])`,
	// 6: error raised after a caught one (a re-thrown error keeps its first
	// trace and appends to it; what its lines should be is not documented, so
	// re-throwing is outside the claim)
	`param a
bad := func(x) {
	throw "bad" + x
}
safe := func(x) {
	try {
		bad(x)
	} catch e {
		if a == 1 {
			x = "third"
		}
	}
	return bad("second" + x)
}
return safe("first")`,
	// 7: error in a finally block and in a catch block
	`param a
f := func(x) {
	try {
		if x == 0 {
			throw "in try"
		}
	} catch e {
		return 1 / x
	} finally {
		if x == 2 {
			return [][x]
		}
	}
	return x
}
return f(a)`,
	// 8: const literals (which the optimizer substitutes for their identifiers)
	// as the first operand of failing expressions, at two depths
	`param a
const k = 1
const s = "s"
const z = 0
v := "str"
bad := func(x, w) {
	if x == 1 { return k - w }
	if x == 2 { return s * w }
	if x == 3 { return z[w] }
	return k / (w ? z : 1)
}
if a == 0 { return k - v }
if a == 5 {
	return z[v].more
}
return bad(a, v)`,
	// 9: one call statement suspended in two frames that are not adjacent:
	// a higher-order helper re-entered through another function, mutual recursion
	`param a
apply := func(f, x) {
	return f(x)
}
inner := func(x) {
	if x > 2 { throw "inner" }
	return x
}
outer := func(x) {
	return apply(inner, x + 1)
}
var (even, odd)
even = func(n) {
	if n <= 0 { throw "bottom" }
	return odd(n - 1)
}
odd = func(n) {
	return even(n - 1)
}
if a > 5 {
	return even(a - 2)
}
return apply(outer, a)`,
}

// verifC16Lines returns the reported stack trace lines of an uncaught error.
func verifC16Lines(err error) ([]int, bool) {
	re, ok := err.(*RuntimeError)
	if !ok {
		return nil, false
	}
	var ls []int
	for _, p := range re.StackTrace() {
		ls = append(ls, p.Line)
	}
	return ls, true
}

func verifSameLines(a, b []int) bool {
	if len(a) != len(b) {
		return false
	}
	for i := range a {
		if a[i] != b[i] {
			return false
		}
	}
	return true
}

// VerifRefLines: expected trace lines from the script text alone (reference
// interpreter), for harnesses in other packages.
func VerifRefLines(src string, args ...Object) (lines []int, failed bool, unsupported string) {
	_, thr, ri := refRun(src, nil, nil, args...)
	return ri.errLines, thr != nil, ri.unsupported
}

func VerifC16Prog(i int) string { return verifC16Progs[i] }

const VerifC16NumProgs = len(verifC16Progs)

// VerifRefTrace: expected (file, line) trace with a module map.
func VerifRefTrace(src string, mm *ModuleMap, args ...Object) (files []string, lines []int, failed bool, unsupported string) {
	_, thr, ri := refRun(src, mm, nil, args...)
	return ri.errFiles, ri.errLines, thr != nil, ri.unsupported
}

// VerifC16Trace: reported lines = call statement lines outermost first + the
// failing line, with the optimizer on or off and k prepended blank lines.
func VerifC16Trace() {
	src := verifC16Progs[verifrt.Param("prog")]
	k := verifrt.Choice("k", 3)
	a := verifrt.Int64("a")
	verifrt.Assume(a >= -1 && a <= 8)
	args := []Object{Int(a)}
	full := strings.Repeat("\n", k) + src
	want, failed, unsup := VerifRefLines(full, args...)
	verifrt.AssertMsg(unsup == "", "reference-interpreter-supports-program", unsup)
	if unsup != "" {
		return
	}
	for opt := 0; opt < 2; opt++ {
		bc, err := Compile([]byte(full), CompilerOptions{NoOptimize: opt == 0})
		verifrt.Assert(err == nil, "compiles")
		if err != nil {
			continue
		}
		_, rerr := NewVM(bc).SetRecover(true).Run(nil, args...)
		verifrt.Assert((rerr != nil) == failed, "fails-iff-reference-fails")
		if rerr != nil && failed {
			got, ok := verifC16Lines(rerr)
			verifrt.Assert(ok, "error-is-a-runtime-error")
			verifrt.AssertMsg(verifSameLines(got, want), "trace-lines", full)
			re := rerr.(*RuntimeError)
			for _, p := range re.StackTrace() {
				verifrt.Assert(p.Filename == "(main)" && p.Offset >= 0 && p.Offset <= len(full), "position-inside-file")
			}
		}
	}
	verifrt.Reached("end")
}

// ---------------------------------------------------------------------------
// Failing-expression forms: the failing operator has sub-expressions the
// optimizer folds (every literal kind, on the left, on the right, nested,
// unary, ternary, builtin calls on constants), placed at four statement sites,
// at call depth 0 and 2.

var verifC16Forms = [...]string{
	`6 * 7 / x`,
	`(1 + 2) % x`,
	`10u - 3u / uint(x)`,
	`'a' + 1 / x`,
	`"a" + "b" - x`,
	`-(2 + 3) / x`,
	`[1 + 1, 2][x + 5]`,
	`{a: 2 * 3}.a.b.c`,
	`int("4" + "2") / x`,
	`(true ? 8 : 9) / x`,
	`x / (3 - 3)`,
	`len("ab" + "c") / x`,
	`1 + 2 + x / (x * 1)`,
	`(2 << 1 | 1) / x + 1`,
	`!false && 5 / x`,
	`1 / x + 2 * 3`,
}

var verifC16Sites = [...]string{"r = EXPR", "return EXPR", "r = id(EXPR)", "if (EXPR) { r = 1 }"}

func verifC16FormProgram(form, site int) string {
	st := strings.Replace(verifC16Sites[site], "EXPR", verifC16Forms[form], 1)
	return `param a
id := func(v) { return v }
f2 := func(x) {
	r := 0
	` + st + `
	return r
}
f1 := func(x) {
	v := f2(x)
	return v
}
if a > 3 {
	w := f1(a - 4)
	return w
}
x := a
r := 0
` + st + `
return r`
}

// VerifC16Forms: trace lines for the failing-expression forms.
func VerifC16Forms() {
	src := verifC16FormProgram(verifrt.Param("form"), verifrt.Param("site"))
	k := verifrt.Choice("k", 2) * 2
	a := verifrt.Int64("a")
	verifrt.Assume(a >= -1 && a <= 6)
	args := []Object{Int(a)}
	full := strings.Repeat("\n", k) + src
	want, failed, unsup := VerifRefLines(full, args...)
	verifrt.AssertMsg(unsup == "", "reference-interpreter-supports-program", unsup)
	if unsup != "" {
		return
	}
	for opt := 0; opt < 2; opt++ {
		bc, err := Compile([]byte(full), CompilerOptions{NoOptimize: opt == 0})
		verifrt.AssertMsg(err == nil, "compiles", full)
		if err != nil {
			continue
		}
		_, rerr := NewVM(bc).SetRecover(true).Run(nil, args...)
		verifrt.AssertMsg((rerr != nil) == failed, "fails-iff-reference-fails", full)
		if rerr != nil && failed {
			got, ok := verifC16Lines(rerr)
			verifrt.Assert(ok, "error-is-a-runtime-error")
			verifrt.AssertMsg(verifSameLines(got, want), "trace-lines", full)
			re := rerr.(*RuntimeError)
			for _, p := range re.StackTrace() {
				verifrt.AssertMsg(p.Filename == "(main)" && p.Offset >= 0 && p.Offset <= len(full), "position-inside-file", full)
			}
		}
	}
	verifrt.Reached("end")
}

// VerifC16Corpus: the metamorphic clauses of the property on the shared
// program corpus (no oracle needed): an uncaught error reports the same
// lines with the optimizer on and off, every position lies inside the file,
// and k prepended blank lines move every reported line down by exactly k.
func VerifC16Corpus() {
	verifrt.Assert(VerifCorpusLen() == verifrt.Param("len"), "job-table-covers-the-corpus")
	src, args := VerifCorpus(verifrt.Param("prog"))
	k := 1 + verifrt.Choice("k", 2)*2
	lines := func(text string, noopt bool) ([]int, bool, bool) {
		bc, err := Compile([]byte(text), CompilerOptions{NoOptimize: noopt})
		verifrt.AssertMsg(err == nil, "compiles", text)
		if err != nil {
			return nil, false, false
		}
		o := verifRunBC(bc, nil, args...)
		if o.err == nil {
			return nil, false, true
		}
		got, ok := verifC16Lines(o.err)
		verifrt.Assert(ok, "error-is-a-runtime-error")
		if re, isRE := o.err.(*RuntimeError); isRE {
			for _, p := range re.StackTrace() {
				verifrt.AssertMsg(p.Offset >= 0 && p.Offset <= len(text) && p.Line >= 1, "position-inside-file", text)
			}
		}
		return got, true, ok
	}
	base, failed, ok := lines(src, true)
	if ok {
		opt, failedOpt, ok2 := lines(src, false)
		verifrt.AssertMsg(ok2 && failed == failedOpt && (!failed || verifSameLines(base, opt)), "same-lines-with-optimizer", src)
		shifted, failedK, ok3 := lines(strings.Repeat("\n", k)+src, verifrt.Bool("noopt"))
		same := ok3 && failed == failedK && len(shifted) == len(base)
		if same {
			for i := range base {
				same = same && shifted[i] == base[i]+k
			}
		}
		verifrt.AssertMsg(same, "blank-lines-shift-every-line", src)
	}
	verifrt.Reached("end")
}
