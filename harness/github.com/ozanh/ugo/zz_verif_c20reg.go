//go:build verif

package ugo

import (
	"reflect"

	"github.com/ozanh/ugo/internal/verifrt"
	t1 "github.com/ozanh/ugo/internal/verifrt/t1"
	t2 "github.com/ozanh/ugo/internal/verifrt/t2"
	"github.com/ozanh/ugo/registry"
)

type verifRegLocal struct{ X int }
type verifRegTwin verifRegLocal // a distinct type with the same underlying type

// verifRegistered: the types that have converters; each converter answers
// with the index of its own type. Registration is idempotent (the same
// converters whenever it runs), so process-wide registries are not a problem.
var verifRegistered = []any{t1.Time{}, &t1.Time{}, verifRegLocal{}, []verifRegLocal{}, t1.Duration(0)}

// verifUnregistered: types without converters, among them types whose
// package-qualified name equals that of a registered type, pointer/value and
// same-underlying-type twins of registered types.
var verifUnregistered = []any{t2.Time{}, &t2.Time{}, verifRegTwin{}, &verifRegLocal{}, []verifRegTwin{}, t2.Duration(0), struct{ X int }{}, [1]verifRegLocal{}}

func verifRegisterAll() {
	for i, v := range verifRegistered {
		idx := i
		typ := reflect.TypeOf(v)
		registry.RegisterObjectConverter(typ, func(in any) (any, bool) {
			// a converter is written for its own type and asserts it
			switch idx {
			case 0:
				_ = in.(t1.Time)
			case 1:
				_ = in.(*t1.Time)
			case 2:
				_ = in.(verifRegLocal)
			case 3:
				_ = in.([]verifRegLocal)
			case 4:
				_ = in.(t1.Duration)
			}
			return Int(idx), true
		})
	}
}

// VerifC20Registry: the converter registry never confuses distinct Go types:
// a value of a registered type is converted by its own converter, a value of
// any other type - also one that shares its package-qualified name, its
// underlying type or its element type with a registered type - is reported as
// unsupported; alone and nested in containers; neither panics.
func VerifC20Registry() {
	verifRegisterAll()
	alt := verifrt.Param("alt") == 1
	nr := len(verifRegistered)
	q := verifrt.Choice("q", nr+len(verifUnregistered))
	var v any
	want := -1
	if q < nr {
		v, want = verifRegistered[q], q
	} else {
		v = verifUnregistered[q-nr]
	}
	in := v
	where := verifrt.Choice("where", 3)
	switch where {
	case 1:
		in = []any{int64(1), v}
	case 2:
		in = map[string]any{"k": []any{v}}
	}
	var got Object
	var err error
	verifrt.NoPanic("conversion-no-panic", func() {
		if alt {
			got, err = ToObjectAlt(in)
		} else {
			got, err = ToObject(in)
		}
	})
	if want < 0 {
		verifrt.Assert(err != nil, "unregistered-type-is-an-error")
	} else {
		verifrt.Assert(err == nil, "registered-type-converts")
		if err == nil {
			var w Object = Int(want)
			switch where {
			case 1:
				w = Array{Int(1), Int(want)}
			case 2:
				w = Map{"k": Array{Int(want)}}
			}
			verifrt.Assert(verifSameObject(got, w), "converted-by-its-own-converter")
		}
	}
	verifrt.Reached("end")
}
