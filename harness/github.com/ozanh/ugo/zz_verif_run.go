//go:build verif

package ugo

import (
	"strings"
	"errors"
	"math"

	"github.com/ozanh/ugo/internal/verifrt"
)

// verifOutcome is what a run of a script is observed to do.
type verifOutcome struct {
	val     Object
	err     error
	compErr error
	out     string // output written through the verifPrint builtin
}

// verifSameObject: same type and same value, bit-for-bit for floats (all NaNs
// are one value); callables compare equal when both are callables of the
// same Go type.
func verifSameObject(a, b Object) bool {
	switch x := a.(type) {
	case nil:
		return b == nil
	case Int:
		y, ok := b.(Int)
		return ok && x == y
	case Uint:
		y, ok := b.(Uint)
		return ok && x == y
	case Char:
		y, ok := b.(Char)
		return ok && x == y
	case Bool:
		y, ok := b.(Bool)
		return ok && x == y
	case Float:
		y, ok := b.(Float)
		if !ok {
			return false
		}
		fx, fy := float64(x), float64(y)
		return math.Float64bits(fx) == math.Float64bits(fy) || (fx != fx && fy != fy)
	case String:
		y, ok := b.(String)
		return ok && x == y
	case Bytes:
		y, ok := b.(Bytes)
		if !ok || len(x) != len(y) {
			return false
		}
		for i := range x {
			if x[i] != y[i] {
				return false
			}
		}
		return true
	case *UndefinedType:
		return b == Undefined
	case Array:
		y, ok := b.(Array)
		if !ok || len(x) != len(y) {
			return false
		}
		for i := range x {
			if !verifSameObject(x[i], y[i]) {
				return false
			}
		}
		return true
	case Map:
		y, ok := b.(Map)
		if !ok || len(x) != len(y) {
			return false
		}
		for k, v := range x {
			w, ok := y[k]
			if !ok || !verifSameObject(v, w) {
				return false
			}
		}
		return true
	case *SyncMap:
		y, ok := b.(*SyncMap)
		return ok && verifSameObject(x.Value, y.Value)
	case *Error:
		y, ok := b.(*Error)
		return ok && x.Name == y.Name && x.Message == y.Message
	case *RuntimeError:
		y, ok := b.(*RuntimeError)
		return ok && verifSameObject(x.Err, y.Err)
	case *ObjectPtr:
		y, ok := b.(*ObjectPtr)
		if !ok {
			return false
		}
		if x.Value == nil || y.Value == nil {
			return x.Value == nil && y.Value == nil
		}
		return verifSameObject(*x.Value, *y.Value)
	case *CompiledFunction:
		_, ok := b.(*CompiledFunction)
		return ok
	case *Function:
		y, ok := b.(*Function)
		return ok && x.Name == y.Name
	case *BuiltinFunction:
		y, ok := b.(*BuiltinFunction)
		return ok && x.Name == y.Name
	}
	return a.TypeName() == b.TypeName() && a.String() == b.String()
}

// verifErrNameMsg extracts the uGO error name and message of a run error.
func verifErrNameMsg(err error) (string, string) {
	if err == nil {
		return "", ""
	}
	var re *RuntimeError
	if errors.As(err, &re) && re.Err != nil {
		return re.Err.Name, verifCutGoStack(re.Err.Message)
	}
	var e *Error
	if errors.As(err, &e) {
		return e.Name, verifCutGoStack(e.Message)
	}
	return "go-error", verifCutGoStack(err.Error())
}

// verifCutGoStack drops the Go stack dump that a recovered panic carries in
// its message (goroutine numbers and addresses differ from run to run).
func verifCutGoStack(m string) string {
	if i := strings.Index(m, "\nGo Stack:"); i >= 0 {
		return m[:i]
	}
	return m
}

func verifSameError(a, b error) bool {
	if a == nil || b == nil {
		return a == nil && b == nil
	}
	an, am := verifErrNameMsg(a)
	bn, bm := verifErrNameMsg(b)
	return an == bn && am == bm
}

func verifSameOutcome(a, b verifOutcome) bool {
	if (a.compErr == nil) != (b.compErr == nil) {
		return false
	}
	if a.compErr != nil {
		return true
	}
	if !verifSameError(a.err, b.err) {
		return false
	}
	if a.err == nil && !verifSameObject(a.val, b.val) {
		return false
	}
	return a.out == b.out
}

// verifOutput collects output of the "out" global function given to scripts.
type verifOutput struct{ s string }

func (o *verifOutput) fn() *Function {
	return &Function{Name: "out", Value: func(args ...Object) (Object, error) {
		for _, a := range args {
			o.s += a.String() + ";"
		}
		return Undefined, nil
	}}
}

// verifRun compiles src with opts and runs it with the given globals/args.
func verifRun(src string, opts CompilerOptions, globals Map, args ...Object) verifOutcome {
	// every script may call the host function out(...) to log; declared on
	// the first line so that line numbers are unchanged
	bc, err := Compile([]byte("global out; "+src), opts)
	if err != nil {
		return verifOutcome{compErr: err}
	}
	return verifRunBC(bc, globals, args...)
}

func verifRunBC(bc *Bytecode, globals Map, args ...Object) verifOutcome {
	var o verifOutput
	if globals == nil {
		globals = Map{}
	}
	globals["out"] = o.fn()
	val, err := NewVM(bc).SetRecover(true).Run(globals, args...)
	return verifOutcome{val: val, err: err, out: o.s}
}

func verifOptsOn(limit int) CompilerOptions {
	return CompilerOptions{OptimizerLimit: limit} // limit < 1 selects the default budget
}

func verifIntArgs(n int) []Object {
	args := make([]Object, n)
	names := [...]string{"p0", "p1", "p2", "p3", "p4", "p5"}
	for i := range args {
		args[i] = Int(verifrt.Int64(names[i]))
	}
	return args
}
