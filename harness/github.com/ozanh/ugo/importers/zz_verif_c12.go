//go:build verif

package importers

import (
	"errors"
	"os"
	"strings"

	"github.com/ozanh/ugo"
	"github.com/ozanh/ugo/internal/verifrt"
)

// an in-memory file tree under the working directory (os.Getwd is modelled
// as "/work" in the engine and is the real one in the native replay)
var verifFiles = map[string]string{
	"/app/config.ugo": `global out; out("config loaded"); n := 0; return {inc: func() { n++; return n }, get: func() { return n }}`,
	"/lib/util.ugo":   `cfg := import("../app/config.ugo"); return {bump: func() { return cfg.inc() }, cfg: cfg}`,
	"/app/main.ugo":   `c := import("./config.ugo"); u := import("../lib/util.ugo"); c.inc(); u.bump(); return [c.get(), u.cfg == c, import("config.ugo").get()]`,
	"/top.ugo":        `a := import("app/config.ugo"); b := import("./app/../app/config.ugo"); a.inc(); return [b.get(), a == b]`,
}

var verifBase string

func verifRead(path string) ([]byte, error) {
	if strings.HasPrefix(path, verifBase) {
		if s, ok := verifFiles[path[len(verifBase):]]; ok {
			return []byte(s), nil
		}
	}
	return nil, errors.New("no such file: " + path)
}

// VerifC12Files: file modules reached through different spellings of their
// path (relative to the importing file, with "..", through the working
// directory given relative or absolute) are one module: the body runs once
// and every import sees the same object. Params: wd (working directory
// spelling), prog (which entry script), opt.
func VerifC12Files() {
	verifBase, _ = os.Getwd()
	wds := [...]string{".", verifBase, "app/..", "./lib/../", ""}
	wd := wds[verifrt.Param("wd")]
	entries := [...]string{
		`global out; return import("app/main.ugo")`,
		`global out; return import("./top.ugo")`,
		`global out; x := import("lib/util.ugo"); y := import("app/config.ugo"); x.bump(); return [y.get(), x.cfg == y]`,
		`global out; f := func() { return import("app/config.ugo") }; f().inc(); return [import("` + verifBase + `/app/config.ugo").get(), f() == import("./app/config.ugo")]`,
	}
	want := [...]string{`[2, true, 2]`, `[1, true]`, `[1, true]`, `[1, true]`}
	p := verifrt.Param("prog")
	log := ""
	g := ugo.Map{"out": &ugo.Function{Name: "out", Value: func(a ...ugo.Object) (ugo.Object, error) {
		for _, x := range a {
			log += x.String() + ";"
		}
		return ugo.Undefined, nil
	}}}
	mm := ugo.NewModuleMap().SetExtImporter(&FileImporter{WorkDir: wd, FileReader: verifRead})
	var v ugo.Object
	var err error
	verifrt.NoPanic("compile-run-no-panic", func() {
		var bc *ugo.Bytecode
		bc, err = ugo.Compile([]byte(entries[p]), ugo.CompilerOptions{ModuleMap: mm, NoOptimize: verifrt.Param("opt") == 0})
		if err == nil {
			v, err = ugo.NewVM(bc).SetRecover(true).Run(g)
		}
	})
	msg := ""
	if err != nil {
		msg = err.Error()
	}
	verifrt.AssertMsg(err == nil, "file-modules-compile-and-run", msg)
	if err == nil {
		verifrt.AssertMsg(v.String() == want[p], "file-module-identity-and-state", v.String())
		verifrt.AssertMsg(log == "config loaded;", "file-module-body-runs-once", log)
	}
	verifrt.Reached("end")
}
