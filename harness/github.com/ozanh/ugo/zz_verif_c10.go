//go:build verif

package ugo

import (
	"context"
	"strings"

	"github.com/ozanh/ugo/internal/verifrt"
)

// statement lists; every statement is one line. The last statement of every
// list is an expression that reads the state declared so far.
var verifC10Progs = [...][]string{
	{`param p`, `x := p`, `get := func() { return x }`, `inc := func() { x++; return x }`, `x = 10`, `inc()`, `[x, get(), inc()]`},
	{`param p`, `const (a = iota; b; c)`, `k := a + b + p`, `const z = "s" + c`, `f := func() { return [a, b, c, z, k] }`, `f()`},
	{`param p`, `if p > 0 { t1 := 1; t2 := 2; out(t1 + t2) }`, `y := 5`, `for i := 0; i < 2; i++ { t := i; y += t }`, `z := y * 2`, `[y, z]`},
	{`param p`, `m := import("a")`, `m.inc()`, `n := import("a")`, `n.inc()`, `[m.get(), n == m, import("a").get()]`},
	{`param p`, `r := []`, `try { throw "e" } catch err { r = append(r, err.Message) } finally { r = append(r, "f") }`, `v := p`, `try { v = 10 / v } catch { v = -1 }`, `[r, v]`},
	{`param p`, `global g`, `g = p + 1`, `h := func() { g++; return g }`, `h()`, `[g, h()]`},
	{`param p`, `a := 1`, `b := 10 / (p - 1)`, `c := 5`, `[a, b, c]`},
	{`param p`, `fs := []`, `for i := 0; i < 3; i++ { fs = append(fs, func() { return i + p }) }`, `i := 100`, `[fs[0](), fs[2](), i]`},
	{`param p`, `var f`, `g := func() { return f() + p }`, `f = func() { return 42 }`, `g()`},
	{`param p`, `mk := func() { c := 0; return func() { c += p; return c } }`, `c1 := mk()`, `c1()`, `c2 := mk()`, `[c1(), c2(), c1()]`},
	{`param p`, `x, y := [p, 2]`, `x, y = [y, x]`, `m := {k: x}`, `m.k += y`, `[x, y, m]`},
	{`param p`, `out("one")`, `s := "a"`, `out(s + "b")`, `s += string(p)`, `out(s)`, `s`},
	// 12-15: several modules first imported by different fragments, modules
	// importing modules, a Go module with mutable attributes, imports inside
	// functions called by later fragments; constants that differ only in sign of zero / type
	{`param p`, `m := import("a")`, `m.inc()`, `b := import("b")`, `b.bump()`, `n := import("a")`, `[m.get(), n.get(), n == m, b.peek(), import("b") == b]`},
	{`param p`, `f := func() { return import("a") }`, `f().inc()`, `g := import("gm")`, `g.box.v = p`, `h := func() { return [import("gm").box.v, import("a").get()] }`, `[h(), g.box.v, f().inc()]`},
	{`param p`, `a := -0.0`, `b := 0.0`, `c := 0`, `d := 1.0`, `e := 1`, `[string(a), string(b), c, d, e, p]`},
	{`param p`, `g := import("gm")`, `g.box.v = 1`, `b := import("b")`, `b.bump()`, `g2 := import("gm")`, `g2.box.v += p`, `[g.box.v, g2 == g, b.peek()]`},
	// 16-18: names declared by earlier fragments (const literals, variables) re-bound
	// in inner scopes of later fragments (parameter, block :=, for-in, catch)
	{`param p`, `const n = 5`, `double := func(n) { return n * 2 }`, `[double(21), n, double(p)]`},
	{`param p`, `const k = 3`, `r := 0`, `if p >= 0 { k := p + 1; r = k * 2 }`, `for _, k in [7] { r += k }`, `[r, k, -k]`},
	{`param p`, `v := 10`, `f := func() { v := p; return v + 1 }`, `try { throw "x" } catch v { p = p + 0 }`, `g := func(v) { return func() { return v } }`, `[f(), v, g(p)()]`},
	// 19-20: names of builtins taken by declarations of earlier fragments (const
	// literals, variables, functions) and used by later fragments in expressions
	// the optimizer folds
	{`param p`, `const len = 5`, `x := len + p`, `const bytes = 512`, `[x, bytes * 4, len, -bytes]`},
	{`param p`, `int := func(x) { return "mine" }`, `const string = 3`, `f := func() { return [int("7"), string * 2] }`, `var bool = 9`, `[f(), bool + 1, int("1")]`},
}

func verifC10Modules() *ModuleMap {
	mm := NewModuleMap()
	mm.AddSourceModule("a", []byte(`n := 0; return {inc: func() { n++; return n }, get: func() { return n }}`))
	mm.AddSourceModule("b", []byte(`a := import("a"); k := 0; return {bump: func() { k++; a.inc(); return k }, peek: func() { return [k, a.get()] }}`))
	mm.AddBuiltinModule("gm", map[string]Object{"box": Map{"v": Int(0)}, "name": String("gm")})
	return mm
}

type verifEvalSession struct {
	e   *Eval
	out *verifOutput
	g   Map
}

func verifNewSession(p Object, disabled []string) *verifEvalSession {
	o := &verifOutput{}
	g := Map{"out": o.fn(), "g": Int(0)}
	st := NewSymbolTable()
	if len(disabled) > 0 {
		st.DisableBuiltin(disabled...)
	}
	e := NewEval(CompilerOptions{ModuleMap: verifC10Modules(), SymbolTable: st, NoOptimize: verifrt.Param("opt") == 0}, g, p)
	return &verifEvalSession{e: e, out: o, g: g}
}

func (s *verifEvalSession) run(frag string) (Object, error) {
	v, _, err := s.e.Run(context.Background(), []byte("global out\n"+frag))
	return v, err
}

// VerifC10Fragments: every cut of the statement list into consecutive
// fragments (the cut vector is a search-tree choice per gap) evaluated one by
// one in a session gives, fragment by fragment, what a fresh session gives for
// the concatenation so far.
func VerifC10Fragments() {
	stmts := verifC10Progs[verifrt.Param("prog")]
	p := Int(verifrt.Int64("p"))
	// choose the cut vector
	var frags []string
	cur := stmts[0]
	for i := 1; i < len(stmts); i++ {
		if verifrt.Choice("cut", 2) == 1 {
			frags = append(frags, cur)
			cur = stmts[i]
		} else {
			cur += "\n" + stmts[i]
		}
	}
	frags = append(frags, cur)

	inc := verifNewSession(p, nil)
	sofar := ""
	for k, f := range frags {
		var v1, v2 Object
		var e1, e2 error
		var o2 string
		if k > 0 {
			sofar += "\n"
		}
		sofar += f
		verifrt.NoPanic("eval-no-panic", func() {
			v1, e1 = inc.run(f)
			batch := verifNewSession(p, nil)
			v2, e2 = batch.run(sofar)
			o2 = batch.out.s
		})
		verifrt.AssertMsg(verifSameError(e1, e2), "fragment-same-error", strings.Join(frags, " | "))
		// only program 6 is built to fail (for one value of p): everywhere else
		// an error would silently end the comparison early
		verifrt.AssertMsg(e2 == nil || verifrt.Param("prog") == 6, "fragment-evaluates", strings.Join(frags, " | "))
		if e1 != nil || e2 != nil {
			break // compared up to and including the first failing fragment
		}
		verifrt.AssertMsg(verifSameObject(v1, v2), "fragment-same-value", strings.Join(frags, " | "))
		verifrt.AssertMsg(inc.out.s == o2, "fragment-same-output", strings.Join(frags, " | "))
	}
	verifrt.Reached("end")
}
