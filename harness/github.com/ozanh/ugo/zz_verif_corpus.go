//go:build verif

package ugo

import (
	"strconv"

	"github.com/ozanh/ugo/internal/verifrt"
)

// Shared program corpus: the C02 program family and a fixed selection of the
// C03 try/catch/finally shapes, each with its symbolic arguments, for the
// properties that quantify over "all compiled programs" (C04 round trips, C11
// version-1 conversion, C08 sharing): every program written for one property
// is a program for the others.

const verifCorpusShapes = 31

// VerifCorpusLen: number of corpus programs.
func VerifCorpusLen() int { return len(verifC02Progs) + verifCorpusShapes }

// VerifCorpus returns program i and its arguments (symbolic ints under the
// range assumptions its family uses).
func VerifCorpus(i int) (string, []Object) {
	if i < len(verifC02Progs) {
		a := verifrt.Int64("a")
		b := verifrt.Int64("b")
		verifrt.Assume(a >= -1 && a <= 4 && b >= -1 && b <= 4)
		return "global out; " + verifC02Progs[i], []Object{Int(a), Int(b)}
	}
	k := i - len(verifC02Progs)
	g := &c3gen{}
	var root *c3node
	if k < 15 {
		root = g.fixed(k)
	} else {
		id := k - 15
		wrap := id % 5
		root = g.build(id%c3Count(1), 1, wrap == 3)
		switch wrap {
		case 1:
			root = g.try(g.wrap(root), nil, g.part(0, nil, false), false)
		case 2:
			root = g.try(g.wrap(root), g.part(0, nil, false), g.exitLeaf(false), true)
		case 3:
			root = g.loop(g.wrap(g.try(g.wrap(root), nil, g.part(0, nil, true), false)))
		case 4:
			root = g.call(g.wrap(g.try(g.wrap(root), nil, g.part(0, nil, false), false)))
		}
	}
	p := &c3printer{}
	p.emit(root, "")
	params := "zero"
	args := []Object{Int(0)}
	for s := 0; s < g.nsite; s++ {
		n := "e" + strconv.Itoa(s)
		params += ", " + n
		if s >= 3 {
			args = append(args, Int(0)) // further exit sites fall through
			continue
		}
		e := verifrt.Int64(n)
		verifrt.Assume(e >= 0 && e <= 5)
		args = append(args, Int(e))
	}
	return "global out; param (" + params + ")\n" + c3Prefixes[k%len(c3Prefixes)] + p.s + "return \"end\"\n", args
}
