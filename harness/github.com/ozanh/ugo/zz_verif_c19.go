//go:build verif

package ugo

import (
	"sort"

	"github.com/ozanh/ugo/internal/verifrt"
)

const verifArgKinds = 13

// verifArg: an argument of kind chosen by the engine, payload symbolic; every
// size-like integer ranges over all of int64.
func verifArg(name string, kinds int) Object {
	maxStr := 2
	if kinds < verifArgKinds {
		maxStr = 1 // several arguments: shorter strings
	}
	switch verifrt.Choice(name+".k", kinds) {
	case 0:
		return Int(verifrt.Int64(name + ".i"))
	case 1:
		return String(verifrt.String(name+".s", verifrt.Choice(name+".sl", maxStr+1)))
	case 2:
		return Undefined
	case 3:
		// mixed, mutually incomparable elements
		return Array{Int(verifrt.Int64(name + ".a0")), String("x"), Int(verifrt.Int64(name + ".a2")), Map{}}
	case 4:
		return &Function{Name: "cb", Value: func(args ...Object) (Object, error) { return Int(len(args)), nil }}
	case 5:
		return Uint(verifrt.Uint64(name + ".u"))
	case 6:
		return Float(verifrt.Float64Bits(name + ".f"))
	case 7:
		return Char(verifrt.Int32(name + ".c"))
	case 8:
		return Bool(verifrt.Bool(name + ".b"))
	case 9:
		return Bytes(verifrt.Bytes(name+".y", verifrt.Choice(name+".yl", 3)))
	case 10:
		return Map{"k": Int(verifrt.Int64(name + ".m0"))}
	case 11:
		return &Error{Name: "E", Message: "m"}
	}
	return Array{}
}

// verifLongArg: a long argument of length n (lengths around buffer-size
// boundaries matter, contents do not: all bytes/elements are 'a').
// kind 0 bytes, 1 string, 2 array of ints, 3 array holding the bytes and the
// string, 4 map holding them; 5 bytes all 0xff, 6 a JSON string literal of
// 0xff bytes, 7 a JSON string literal of 'a', 8 digits, 9 = 6 as a string.
func verifLongArg(name string, n, kind int) Object {
	b := byte('a') // (a symbolic fill byte costs one solver query per element and adds nothing here)
	raw := make([]byte, n)
	for i := range raw {
		raw[i] = b
	}
	// kinds 5-9: the content classes a parsing function distinguishes
	if kind >= 5 {
		fill := [...]byte{0xff, 0xff, 'a', '7', 0xff}[kind-5]
		for i := range raw {
			raw[i] = fill
		}
		if kind == 6 || kind == 7 || kind == 9 {
			raw[0], raw[n-1] = '"', '"' // a JSON string literal
		}
		if kind == 9 {
			return String(raw)
		}
		return Bytes(raw)
	}
	switch kind {
	case 0:
		return Bytes(raw)
	case 1:
		return String(raw)
	case 2:
		arr := make(Array, n)
		for i := range arr {
			arr[i] = Int(b)
		}
		return arr
	case 3:
		return Array{Bytes(raw), String(raw), Int(n)}
	}
	return Map{"b": Bytes(raw), "s": String(raw)}
}

// VerifCallTotal calls callable f (both entry points when it has them) with
// nargs arguments of kinds chosen among the first "kinds" argument kinds and
// asserts totality: a value or an error, no panic, no allocation above the
// ceiling.
// VerifArg exports verifArg for module harnesses.
func VerifArg(name string, kinds int) Object { return verifArg(name, kinds) }

func VerifCallTotal(f Object, nargs, kinds int) {
	args := make([]Object, nargs)
	names := [...]string{"a0", "a1", "a2", "a3", "a4"}
	verifrt.AllocBudget(1 << 26)
	long := verifrt.Param("long")
	for i := range args {
		if i == 0 && long > 0 {
			args[0] = verifLongArg("long", long, verifrt.Param("lk"))
			verifrt.AllocBudget(1 << 21) // honoured sizes multiply with the long argument
			continue
		}
		args[i] = verifArg(names[i], kinds)
	}
	VerifCallArgs(f, args)
}

// VerifCallArgs calls f (both entry points, and the variadic-slot shape) with
// args and asserts totality.
func VerifCallArgs(f Object, args []Object) {
	nargs := len(args)
	var v Object
	var err error
	called := false
	verifrt.NoPanic("call-no-panic", func() {
		v, err = f.Call(args...)
		called = true
	})
	if called {
		verifrt.Assert(v != nil || err != nil, "value-or-error")
	}
	if ex, ok := f.(ExCallerObject); ok {
		vm := NewVM(&Bytecode{Main: &CompiledFunction{Instructions: []byte{OpReturn, 0}}})
		called = false
		verifrt.NoPanic("callex-no-panic", func() {
			v, err = ex.CallEx(NewCall(vm, args))
			called = true
		})
		if called {
			verifrt.Assert(v != nil || err != nil, "value-or-error-ex")
		}
		if nargs >= 1 {
			// the same arguments passed through the variadic slot
			called = false
			verifrt.NoPanic("callex-vargs-no-panic", func() {
				v, err = ex.CallEx(NewCall(vm, args[:nargs-1], args[nargs-1]))
				called = true
			})
		}
	}
	verifrt.Reached("end")
}

// VerifModuleCallable returns the idx-th callable of a module map (sorted by name).
func VerifModuleCallable(attrs map[string]Object, idx int) (string, Object) {
	var names []string
	for k, v := range attrs {
		if v.CanCall() {
			names = append(names, k)
		}
	}
	sort.Strings(names)
	if idx >= len(names) {
		return "", nil
	}
	return names[idx], attrs[names[idx]]
}

// VerifC19Builtin: builtin number "idx" of BuiltinObjects.
func VerifC19Builtin() {
	idx := verifrt.Param("idx")
	verifrt.Assume(idx < len(BuiltinObjects) && BuiltinObjects[idx] != nil)
	// :makeArray is a private helper of destructuring, not reachable by name
	verifrt.Assume(idx != int(BuiltinMakeArray))
	f := BuiltinObjects[idx]
	name := ""
	for n, i := range BuiltinsMap {
		if int(i) == idx {
			name = n
		}
	}
	verifrt.Known("C19-repeat-huge-count", name == "repeat")
	if !f.CanCall() {
		// error values: New is their callable member
		if e, ok := f.(*Error); ok {
			nc, _ := Object(e).(NameCallerObject)
			if nc != nil {
				args := make([]Object, verifrt.Param("nargs"))
				for i := range args {
					args[i] = verifArg("a", verifrt.Param("kinds"))
				}
				verifrt.NoPanic("callname-no-panic", func() { _, _ = nc.CallName("New", Call{args: args}) })
			}
		}
		verifrt.Reached("end")
		return
	}
	VerifCallTotal(f, verifrt.Param("nargs"), verifrt.Param("kinds"))
	verifrt.ClearKnown()
}
