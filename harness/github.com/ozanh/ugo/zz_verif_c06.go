//go:build verif

package ugo

import (
	"strings"

	"github.com/ozanh/ugo/internal/verifrt"
)

// failing operations with a symbolic operand v (any int)
var verifC06Ops = [...]string{
	`1 / v`,
	`7 % v`,
	`1 << v`,
	`5 >> v`,
	`[1, 2][v]`,
	`[1, 2, 3][v:]`,
	`"abc"[:v]`,
	`v()`,
	`boom(v)`,
	`two(v)`,
	`undefined.x[v].y`,
	`char(v) + 1.5`,
	`repeat([1], v)`,
	`bytes(1, 2)[v]`,
	`{a: 1}[v].b.c()`,
	`gopanic(v)`,
	`'a' << char(v)`,
	`uint(v) / (uint(v) - uint(v))`,
	`sort([1, "a", v])`,
	`int(v, v)`,
}

// contexts the failing operation is placed in (%s = the operation)
var verifC06Ctx = [...]string{
	"return %s",
	"f := func() { return %s }\nreturn f()",
	"try { return %s } catch e { return \"caught:\" + e.Name }",
	"try { return %s } finally { out(\"fin\") }",
	"r := []\nfor i in [1, 2] { try { r = append(r, %s) } catch e { r = append(r, e.Name) } finally { r = append(r, i) } }\nreturn r",
	"return callback(func() { return %s })",
	"try { return callback(func() { return %s }) } catch e { return \"cb:\" + e.Name }",
	"var f\nf = func(n) { if n == 0 { return %s }; return f(n - 1) + 1 }\nreturn f(3)",
}

const verifC06Header = "global (boom, two, callback, gopanic)\nparam v\n"

// the observation script of C07 (also the follow-up script of C06)
const verifObsScript = `global obscb
param x
s := 0
for i := 0; i < 3; i++ { s += i * x }
m := {a: [1, 2], n: x}
f := func(y) { return y + s }
try { throw "z" } catch e { s += len(e.Message) } finally { m.fin = true }
if x == 7 { throw "uncaught at main level" }
g := func(y) { if y == 8 { return 1 / (y - 8) }; return y }
k2 := func(y) { if y == 9 { throw "depth2" }; return y + 1 }
k1 := func(y) { r := k2(y); try { k2(9) } catch e2 { r += len(e2.Message) }; return r }
s += k1(x)
return [s, m, f(1), g(x), import("obsmod").v, obscb(func() { return s + 1 }), obscb(f, 2)]`

// verifObsGlobals: the observation script calls script functions through a
// pooled Invoker, so a child VM left in a bad state in the process-wide pool
// by an earlier run is observed too.
func verifObsGlobals() Map {
	return Map{"obscb": &Function{Name: "obscb", ValueEx: func(c Call) (Object, error) {
		inv := NewInvoker(c.VM(), c.Get(0))
		inv.Acquire()
		defer inv.Release()
		var args []Object
		for i := 1; i < c.Len(); i++ {
			args = append(args, c.Get(i))
		}
		return inv.Invoke(args...)
	}}}
}

func verifObsModules() *ModuleMap {
	mm := NewModuleMap()
	mm.AddSourceModule("obsmod", []byte(`return {v: 41 + 1}`))
	mm.AddSourceModule("firstmod", []byte(`return {v: 7, w: [1]}`))
	mm.AddBuiltinModule("firstgo", map[string]Object{"v": Int(5), "box": Map{"k": Int(1)}})
	return mm
}

func verifC06Globals(vm **VM) Map {
	g := Map{}
	g["boom"] = &Function{Name: "boom", Value: func(args ...Object) (Object, error) {
		return nil, ErrNotImplemented.NewError("boom")
	}}
	g["two"] = &Function{Name: "two", Value: func(args ...Object) (Object, error) {
		if len(args) != 2 {
			return nil, ErrWrongNumArguments.NewError("want=2")
		}
		return Undefined, nil
	}}
	g["gopanic"] = &Function{Name: "gopanic", Value: func(args ...Object) (Object, error) {
		var arr []int
		idx := 3
		if len(args) > 0 {
			if v, ok := args[0].(Int); ok && v == 12345 {
				idx = 0
				arr = []int{1}
			}
		}
		return Int(arr[idx]), nil // index out of range: a Go panic in a callback
	}}
	g["callback"] = &Function{Name: "callback", ValueEx: func(c Call) (Object, error) {
		if c.Len() != 1 {
			return nil, ErrWrongNumArguments.NewError("want=1")
		}
		inv := NewInvoker(c.VM(), c.Get(0))
		inv.Acquire()
		defer inv.Release()
		return inv.Invoke()
	}}
	g["abort"] = &Function{Name: "abort", Value: func(args ...Object) (Object, error) {
		if *vm != nil {
			(*vm).Abort()
		}
		return Undefined, nil
	}}
	return g
}

// verifObsReference runs the observation script on a fresh VM. It is called
// before the script under test has run, while the process-wide VM pool is
// still in its initial state.
func verifObsReference(obs *Bytecode, x Object) (v Object, err error) {
	verifrt.NoPanic("reference-run-no-panic", func() {
		v, err = NewVM(obs).SetRecover(true).Run(verifObsGlobals(), x)
	})
	return
}

// verifC06FollowUp runs the observation script on the VM that ran the script
// under test, under a step budget: a VM left in a state in which the next
// script never ends is the failure "follow-up-terminates".
func verifC06FollowUp(vm *VM, clear bool, obs *Bytecode, x Object, v *Object, e *error) {
	done := verifrt.Bounded(5_000_000, func() {
		if clear {
			vm.Clear()
		}
		*v, *e = vm.SetBytecode(obs).Run(verifObsGlobals(), x)
	}, vm.Abort)
	verifrt.Assert(done, "follow-up-terminates")
}

func verifIsValueOrError(v Object, err error) bool {
	return (err == nil) != (v == nil)
}

// VerifC06Fail: a script built to fail at operation "op" in context "ctx",
// recovery on, operand v symbolic: no Go panic escapes Run, the result is a
// value or an error, and the same VM then runs a known script correctly.
func VerifC06Fail() {
	op := verifC06Ops[verifrt.Param("op")]
	ctx := verifC06Ctx[verifrt.Param("ctx")]
	src := verifC06Header + strings.Replace(ctx, "%s", op, 1)
	v := verifrt.Int64("v")
	bc, err := Compile([]byte("global out; "+src), CompilerOptions{NoOptimize: true})
	verifrt.AssertMsg(err == nil, "compiles", src)
	if err != nil {
		return
	}
	obs, err := Compile([]byte(verifObsScript), CompilerOptions{ModuleMap: verifObsModules()})
	verifrt.Assert(err == nil, "observation-script-compiles")
	if err != nil {
		return
	}
	var vm *VM
	g := verifC06Globals(&vm)
	var o verifOutput
	g["out"] = o.fn()
	vm = NewVM(bc).SetRecover(true)
	x := Int(verifrt.Int64("x"))
	// repeat counts above 64 would only unroll the same loop further
	if verifrt.Param("op") == 12 {
		verifrt.Assume(v <= 3) // huge counts are C19's subject
	}
	var val Object
	var rerr error
	verifrt.Freeze(bc, obs)
	v2, e2 := verifObsReference(obs, x)
	verifrt.NoPanic("no-panic-escapes-run", func() { val, rerr = vm.Run(g, Int(v)) })
	verifrt.AssertMsg(verifIsValueOrError(val, rerr), "value-or-error", src)
	// the VM can run further scripts correctly afterwards (C06) and their
	// outcome does not depend on what ran before (C07)
	var v1 Object
	var e1 error
	verifrt.NoPanic("follow-up-no-panic", func() {
		switch verifrt.Param("reuse") {
		case 0:
			verifC06FollowUp(vm, false, obs, x, &v1, &e1)
		case 1:
			verifC06FollowUp(vm, true, obs, x, &v1, &e1)
		default:
			// the failing script again, then the observation script
			_, _ = vm.Run(g, Int(v))
			verifC06FollowUp(vm, true, obs, x, &v1, &e1)
		}
	})
	verifrt.Unfreeze()
	verifrt.AssertMsg(verifSameError(e1, e2) && (e1 != nil || verifSameObject(v1, v2)), "history-independent", src)
	verifrt.Reached("end")
}

// VerifC06Edge: resource-limit programs: recursion to the call-frame limit
// (1024) or the value-stack limit (2048 slots), with the failing operation
// placed at the edge, inside or outside a try statement, with recovery on.
// Params: kind, n (depth or width), handler.
func VerifC06Edge() {
	kind := verifrt.Param("kind")
	n := verifrt.Param("n")
	handler := verifrt.Param("handler")
	var body string
	switch kind {
	case 0: // 2 slots per frame: frame limit and stack limit meet
		body = "var f\nf = func(d) { if d == 0 { return 1 % z }; return f(d - 1) + 1 }\nr := f(n)"
	case 1: // 4 slots per frame: the value stack overflows first
		body = "var f\nf = func(d, a, b) { if d == 0 { return 1 % z }; return f(d - 1, a, b) + a + b }\nr := f(n, 1, 2)"
	case 2: // wide array literal
		body = "r := [" + strings.Repeat("z, ", n) + "1 % z]"
	case 4: // no locals: the frame limit (1024) is reached long before the value stack limit
		body = "var f\nc := 0\nf = func() { c++; if c > n { return 1 % z }; return f() + 1 }\nr := f()"
	case 3: // deep recursion through a Go callback (child VMs)
		body = "var f\nf = func(d) { if d == 0 { return 1 % z }; return callback(func() { return f(d - 1) }) }\nr := f(n)"
	}
	var src string
	switch handler {
	case 0:
		src = body + "\nreturn r"
	case 1:
		src = "try {\n" + body + "\nreturn r\n} catch e { return \"caught:\" + e.Name }"
	case 2:
		src = "g := func() {\n" + body + "\nreturn r\n}\ntry { return g() } finally { out(\"fin\") }"
	case 3: // finally inside catch, both in main
		src = "try {\ntry {\n" + body + "\nreturn r\n} finally { out(\"f1\") }\n} catch e { return \"caught2:\" + e.Name }"
	case 4: // handler in an intermediate function, which is then called again
		src = "g := func() {\ntry {\n" + body + "\nreturn r\n} catch e { return \"g-caught:\" + e.Name }\n}\nreturn [g(), g()]"
	}
	src = "global (callback)\nparam (n, z)\n" + src
	bc, err := Compile([]byte("global out; "+src), CompilerOptions{NoOptimize: true})
	verifrt.Assert(err == nil, "compiles")
	if err != nil {
		return
	}
	obs, err := Compile([]byte(verifObsScript), CompilerOptions{ModuleMap: verifObsModules()})
	verifrt.Assert(err == nil, "observation-script-compiles")
	if err != nil {
		return
	}
	var vm *VM
	g := verifC06Globals(&vm)
	var o verifOutput
	g["out"] = o.fn()
	vm = NewVM(bc).SetRecover(true)
	z := verifrt.Int64("z")
	verifrt.Assume(z >= 0 && z <= 1)
	var val Object
	var rerr error
	x := Int(verifrt.Int64("x"))
	v2, e2 := verifObsReference(obs, x)
	verifrt.NoPanic("no-panic-escapes-run", func() { val, rerr = vm.Run(g, Int(n), Int(z)) })
	verifrt.Assert(verifIsValueOrError(val, rerr), "value-or-error")
	var v1 Object
	var e1 error
	verifrt.NoPanic("follow-up-no-panic", func() {
		verifC06FollowUp(vm, true, obs, x, &v1, &e1)
	})
	verifrt.Assert(verifSameError(e1, e2) && (e1 != nil || verifSameObject(v1, v2)), "history-independent")
	verifrt.Reached("end")
}

// VerifC06Args: the host passes 0..4 arguments (a slice without spare
// capacity, and one with) to main functions with every shape of parameter
// list; Run binds them before entering its recovered region, so nothing may
// panic there either. Missing named parameters are undefined, the variadic
// parameter collects the rest.
func VerifC06Args() {
	forms := [...]string{
		"return 1",
		"param a\nreturn [a]",
		"param (a, b)\nreturn [a, b]",
		"param (...c)\nreturn [c]",
		"param (a, ...c)\nreturn [a, c]",
		"param (a, b, ...c)\nreturn [a, b, c]",
		"param (a, b, d, ...c)\nreturn [a, b, d, c]",
	}
	named := [...]int{0, 1, 2, 0, 1, 2, 3}
	variadic := [...]bool{false, false, false, true, true, true, true}
	f := verifrt.Param("form")
	n := verifrt.Choice("nargs", 5)
	spare := verifrt.Choice("spare", 2)
	args := make([]Object, n, n+4*spare)
	for i := range args {
		args[i] = Int(int64(10 + i))
	}
	bc, err := Compile([]byte(forms[f]), CompilerOptions{NoOptimize: verifrt.Param("opt") == 0})
	verifrt.Assert(err == nil, "compiles")
	if err != nil {
		return
	}
	vm := NewVM(bc).SetRecover(true)
	var v Object
	var rerr error
	verifrt.NoPanic("no-panic-escapes-run", func() { v, rerr = vm.Run(nil, args...) })
	verifrt.Assert(verifIsValueOrError(v, rerr), "value-or-error")
	if rerr == nil && f > 0 {
		// expected binding
		want := Array{}
		for i := 0; i < named[f]; i++ {
			if i < n {
				want = append(want, args[i])
			} else {
				want = append(want, Undefined)
			}
		}
		if variadic[f] {
			rest := Array{}
			for i := named[f]; i < n; i++ {
				rest = append(rest, args[i])
			}
			want = append(want, rest)
		}
		verifrt.AssertMsg(verifSameObject(v, want), "host-arguments-bound-as-documented", v.String())
	}
	// and the VM is usable afterwards
	var v2 Object
	verifrt.NoPanic("second-run-no-panic", func() { v2, _ = vm.Run(nil, args...) })
	verifrt.Assert(rerr != nil || verifSameObject(v, v2), "second-run-same")
	verifrt.Reached("end")
}

// ---------------------------------------------------------------------------
// C07: histories

var verifC07First = [...]string{
	// returns normally, leaves locals, closures, a module and handlers behind
	"m := import(\"obsmod\")\nf := func() { return m.v }\ntry { x := [1, 2, 3] } finally { y := 1 }\nreturn f()",
	// uncaught error inside nested calls inside try/finally
	"var f\nf = func(n) { if n == 0 { throw \"deep\" }; try { return f(n - 1) } finally { n = 0 } }\nreturn f(3)",
	// recovered Go panic in a callback
	"return gopanic(1)",
	// value-stack overflow inside a try in a nested call
	"var f\nf = func(d, a, b) { return f(d + 1, a, b) + a }\ng := func() { try { return f(0, 1, 2) } finally { out(\"fin\") } }\ntry { return g() } catch e { return \"caught\" }",
	// frame overflow
	"var f\nf = func(d) { return f(d + 1) + 1 }\nreturn f(0)",
	// abort from a callback while main is inside try and a nested call
	"f := func() { abort(); for i := 0; i < 100; i++ { } ; return 1 }\ntry { return f() } catch e { return \"caught\" } finally { out(\"fin\") }",
	// error thrown from a finally block with a pending return
	"f := func() { try { return 1 } finally { throw \"fin\" } }\ntry { f() } catch e { }\nreturn f()",
	// abort while a pooled child VM runs a script function inside a Go callback
	"f := func() { abort(); for i := 0; i < 100; i++ { } ; return 1 }\nreturn callback(f)",
	// abort at call depth 2 while the frames at depth 0, 1 are inside live try statements
	"f := func() { abort(); for i := 0; i < 100; i++ { } ; return 1 }\ng := func() { try { return f() } catch e { return \"c\" } finally { out(\"fin\") } }\nh := func() { try { return g() } finally { out(\"h\") } }\nreturn h()",
	// frame overflow with a live try statement in every frame
	"var f\nf = func(d) { try { return f(d + 1) + 1 } finally { d = 0 } }\nreturn f(0)",
	// uncaught error from depth 3 with live try/finally statements at depths 1 and 2 whose finally blocks fail too
	"d3 := func() { throw \"d3\" }\nd2 := func() { try { return d3() } finally { throw \"f2\" } }\nd1 := func() { try { return d2() } finally { out(1 / 0) } }\nreturn d1()",
	// modules of its own (other modules than the observation script's, at the same cache indexes), with state
	"m := import(\"firstmod\")\nm.v = 99\ng := import(\"firstgo\")\ng.box.k = 2\nreturn [m.v, g.box.k]",
	// the same from inside a function run by a pooled child VM, ending with an error
	"f := func() { m := import(\"firstgo\"); m.v = 6; x := import(\"firstmod\"); x.w[0] = 2; throw \"after imports\" }\nreturn callback(f)",
	// error escaping from a pooled child VM's nested call, then a second pooled call
	"var f\nf = func(n) { if n == 0 { throw \"deep\" }; return f(n - 1) }\ntry { callback(func() { return f(2) }) } catch e { out(e.Message) }\nreturn callback(func() { return 7 })",
}

// VerifC07History: first script "first" (one of the termination kinds) runs
// hist times on a VM, which is then given the observation script; the
// outcome equals that of a fresh VM for every argument; and running the same
// Bytecode again gives the same outcome. Bytecode is never written.
func VerifC07History() {
	first := verifC07First[verifrt.Param("first")]
	src := "global (out, gopanic, abort, callback)\n" + first
	mm := verifObsModules()
	bc, err := Compile([]byte(src), CompilerOptions{ModuleMap: mm, NoOptimize: true})
	verifrt.AssertMsg(err == nil, "compiles", src)
	if err != nil {
		return
	}
	obs, err := Compile([]byte(verifObsScript), CompilerOptions{ModuleMap: mm})
	verifrt.Assert(err == nil, "observation-script-compiles")
	if err != nil {
		return
	}
	var vm *VM
	g := verifC06Globals(&vm)
	var o verifOutput
	g["out"] = o.fn()
	vm = NewVM(bc).SetRecover(true)
	x := Int(verifrt.Int64("x"))
	verifrt.Freeze(bc, obs)
	v2, e2 := verifObsReference(obs, x)
	var r1, r2 Object
	var re1, re2 error
	verifrt.NoPanic("first-script-no-panic", func() {
		r1, re1 = vm.Run(g)
		if verifrt.Param("hist") > 1 {
			r2, re2 = vm.Run(g)
			verifrt.Assert(verifSameError(re1, re2) && (re1 != nil || verifSameObject(r1, r2)), "same-bytecode-same-outcome-on-rerun")
		}
	})
	var v1 Object
	var e1 error
	terminated := true
	verifrt.NoPanic("observation-no-panic", func() {
		if verifrt.Param("clear") == 1 {
			vm.Clear()
		}
		// a fresh VM needs about 150k interpreted steps for this script
		terminated = verifrt.Bounded(5_000_000, func() { v1, e1 = vm.SetBytecode(obs).Run(verifObsGlobals(), x) }, vm.Abort)
	})
	verifrt.AssertMsg(terminated, "history-independent-termination", src)
	if !terminated {
		verifrt.Reached("end")
		return
	}
	verifrt.Unfreeze()
	verifrt.AssertMsg(verifSameError(e1, e2) && (e1 != nil || verifSameObject(v1, v2)), "history-independent", src)
	// the first bytecode still runs to the same outcome on a new VM
	var vm2 *VM
	g2 := verifC06Globals(&vm2)
	var o2 verifOutput
	g2["out"] = o2.fn()
	vm2 = NewVM(bc).SetRecover(true)
	var r3 Object
	var re3 error
	verifrt.NoPanic("rerun-no-panic", func() { r3, re3 = vm2.Run(g2) })
	verifrt.Assert(verifSameError(re1, re3) && (re1 != nil || verifSameObject(r1, r3)), "same-bytecode-same-outcome-on-new-vm")
	verifrt.Reached("end")
}

// VerifC07Globals: what a run sees as globals is what it was given - a nil
// globals argument means a fresh empty map, whatever earlier runs on the same
// VM were given or stored. Three runs of `global x; x = (x || 0) + p; return x`
// on one VM; per run the globals argument (nil, a new map, one shared map)
// and what happens before it (nothing, Clear, SetBytecode) are choices.
func VerifC07Globals() {
	bc, err := Compile([]byte("global x\nparam p\nx = (x || 0) + p\nreturn x"), CompilerOptions{NoOptimize: verifrt.Param("opt") == 0})
	verifrt.Assert(err == nil, "compiles")
	if err != nil {
		return
	}
	p := verifrt.Int64("p")
	verifrt.Assume(p > -1000 && p < 1000)
	shared := Map{}
	sharedUses := int64(0)
	vm := NewVM(bc).SetRecover(true)
	for i := 0; i < 3; i++ {
		switch verifrt.Choice("before", 3) {
		case 1:
			vm.Clear()
			vm.SetBytecode(bc)
		case 2:
			vm.SetBytecode(bc)
		}
		var g Object
		want := p
		switch verifrt.Choice("globals", 3) {
		case 1:
			g = Map{}
		case 2:
			g = shared
			sharedUses++
			want = p * sharedUses
		}
		var v Object
		var rerr error
		verifrt.NoPanic("run-no-panic", func() { v, rerr = vm.Run(g, Int(p)) })
		verifrt.Assert(rerr == nil && v != nil && v.Equal(Int(want)), "globals-are-what-the-run-was-given")
	}
	verifrt.Reached("end")
}
