//go:build verif

package ugo

import (
	"context"
	"sort"

	"github.com/ozanh/ugo/internal/verifrt"
)

var verifC13Names = [...]string{"len", "int", "string", "typeName"}

type verifC13Prog struct {
	src   string
	mod   string   // source of module "m" (if imported)
	mod2  string   // source of module "m2" (if imported, by the script or by m)
	frag2 string   // second Eval fragment (if any)
	bad   string   // an Eval fragment evaluated first that fails (its failure is expected and ignored)
	uses  []string // builtin names referenced without an own declaration
}

var verifC13Progs = [...]verifC13Prog{
	{src: `return [len("ab"), int("3")]`, uses: []string{"len", "int"}},
	{src: `const k = 2; f := func() { return len("abc") + k }; return f()`, uses: []string{"len"}},
	{src: `return import("m")`, mod: `return string(1) + typeName(2)`, uses: []string{"string", "typeName"}},
	{src: `len := func(x) { return 7 }; return len("abc") + int("1")`, uses: []string{"int"}},
	{src: `x := 1`, frag2: `return len("ab") + x`, uses: []string{"len"}},
	{src: `return typeName(1 + 2) + string(5)`, uses: []string{"typeName", "string"}},
	{src: `g := func(int) { return int }; f := func() { return func() { return len([1]) + g(1) } }; return f()()`, uses: []string{"len"}},
	{src: `if true { const c = 1; x := -len("a") + c; return x }; return 0`, uses: []string{"len"}},
	{src: `const c = "q"; f := func() { if true { return func() { return typeName(c) + string(!int("0")) } }; return 0 }; return f()()`, uses: []string{"typeName", "string", "int"}},
	{src: `f := func(...string) { return string }; m := {k: len}; return [f(1), m.k("abc")]`, uses: []string{"len"}},
	{src: `x := 2`, frag2: `const k = 1; g := func() { return int("4") * k + x }; return g()`, uses: []string{"int"}},
	{src: `try { throw "e" } catch len { return string(len) }; return int("1")`, uses: []string{"string", "int"}},
	// 12-19: the import stands in a scope other than the script's top level,
	// modules import modules, a module is imported from two different scopes
	{src: `f := func() { return import("m") }; return f()`, mod: `return string(1) + typeName(2)`, uses: []string{"string", "typeName"}},
	{src: `if true { x := import("m"); return x }; return 0`, mod: `return len("abc")`, uses: []string{"len"}},
	{src: `for i := 0; i < 1; i++ { return import("m") }; return 0`, mod: `f := func() { return int("5") }; return f()`, uses: []string{"int"}},
	{src: `try { return import("m") } finally { }`, mod: `const c = 1; return -len("ab") + c`, uses: []string{"len"}},
	{src: `return import("m")`, mod: `x := import("m2"); return x`, mod2: `f := func() { return typeName(1) }; return f()`, uses: []string{"typeName"}},
	{src: `g := func() { if true { return func() { return import("m") } }; return 0 }; return g()()`, mod: `return func() { return string(2) }()`, uses: []string{"string"}},
	{src: `a := func() { return import("m") }; b := import("m2"); return [a(), b, import("m")]`, mod: `return len("q")`, mod2: `return int("2")`, uses: []string{"len", "int"}},
	{src: `f := func() { return import("m") }; return f()`, mod: `g := func() { return import("m2") }; return g()`, mod2: `return string(len("ab"))`, uses: []string{"string", "len"}},
	// 20-23: Eval sessions in which earlier fragments failed (unresolved name, parse
	// error, a run-time error, a failing import)
	{bad: `q := notDeclared + 1`, src: `x := 1`, frag2: `return len("ab") + x`, uses: []string{"len"}},
	{bad: `x := (`, src: `y := "s"`, frag2: `return typeName(y) + string(1)`, uses: []string{"typeName", "string"}},
	{bad: `z := 1 / 0`, src: `w := 2`, frag2: `f := func() { return int("3") + w }; return f()`, uses: []string{"int"}},
	{bad: `return import("nosuchmodule")`, src: `v := [1, 2]`, frag2: `return len(v)`, uses: []string{"len"}},
}

// verifFindBuiltinRefs scans every compiled function for OpGetBuiltin operands.
func verifFindBuiltinRefs(bc *Bytecode) map[int]bool {
	refs := map[int]bool{}
	scan := func(cf *CompiledFunction) {
		IterateInstructions(cf.Instructions, func(_ int, op Opcode, operands []int, _ int) bool {
			if op == OpGetBuiltin {
				refs[operands[0]] = true
			}
			return true
		})
	}
	scan(bc.Main)
	for _, c := range bc.Constants {
		if cf, ok := c.(*CompiledFunction); ok {
			scan(cf)
		}
	}
	return refs
}

// VerifC13Disabled: for every subset of four builtin names disabled in the
// symbol table: a program that references a disabled name it did not declare
// is a compile error; otherwise it compiles, its Bytecode holds no reference
// to a disabled builtin, and no disabled builtin is called at compile time
// (optimizer) or run time.
func VerifC13Disabled() {
	pr := verifC13Progs[verifrt.Param("prog")]
	disabled := map[string]bool{}
	var dis []string
	for _, n := range verifC13Names {
		if verifrt.Choice("disable."+n, 2) == 1 {
			disabled[n] = true
			dis = append(dis, n)
		}
	}
	// instrument the disabled builtins: any call is recorded
	called := ""
	saved := map[BuiltinType]Object{}
	for _, n := range dis {
		idx := BuiltinsMap[n]
		saved[idx] = BuiltinObjects[idx]
		name := n
		orig := BuiltinObjects[idx].(*BuiltinFunction)
		BuiltinObjects[idx] = &BuiltinFunction{Name: orig.Name,
			Value: func(args ...Object) (Object, error) {
				called += name + ";"
				return orig.Value(args...)
			},
			ValueEx: func(c Call) (Object, error) {
				called += name + ";"
				if orig.ValueEx != nil {
					return orig.ValueEx(c)
				}
				return orig.Value(c.callArgs()...)
			},
		}
	}
	defer func() {
		for idx, o := range saved {
			BuiltinObjects[idx] = o
		}
	}()

	mustFail := false
	for _, u := range pr.uses {
		if disabled[u] {
			mustFail = true
		}
	}
	st := NewSymbolTable()
	st.DisableBuiltin(dis...)
	mm := NewModuleMap()
	if pr.mod != "" {
		mm.AddSourceModule("m", []byte(pr.mod))
	}
	if pr.mod2 != "" {
		mm.AddSourceModule("m2", []byte(pr.mod2))
	}
	opts := CompilerOptions{ModuleMap: mm, SymbolTable: st, NoOptimize: verifrt.Param("opt") == 0}
	var failed bool
	var bcs []*Bytecode
	verifrt.NoPanic("compile-run-no-panic", func() {
		if pr.frag2 == "" && pr.bad == "" {
			bc, err := Compile([]byte(pr.src), opts)
			failed = err != nil
			if err == nil {
				bcs = append(bcs, bc)
				_, _ = NewVM(bc).SetRecover(true).Run(nil)
			}
		} else {
			e := NewEval(opts, nil)
			if pr.bad != "" {
				// a failing fragment first (twice: a retry must fail the same way)
				_, _, berr := e.Run(context.Background(), []byte(pr.bad))
				_, _, berr2 := e.Run(context.Background(), []byte(pr.bad))
				verifrt.Assert(berr != nil && berr2 != nil, "bad-fragment-fails")
			}
			_, bc, err := e.Run(context.Background(), []byte(pr.src))
			if err == nil {
				bcs = append(bcs, bc)
				_, bc, err = e.Run(context.Background(), []byte(pr.frag2))
				if bc != nil {
					bcs = append(bcs, bc)
				}
			}
			failed = err != nil
		}
	})
	verifrt.AssertMsg(failed == mustFail, "disabled-reference-is-a-compile-error", pr.src)
	for _, bc := range bcs {
		for idx := range verifFindBuiltinRefs(bc) {
			for _, n := range dis {
				verifrt.AssertMsg(int(BuiltinsMap[n]) != idx, "no-disabled-builtin-in-bytecode", pr.src)
			}
		}
	}
	verifrt.AssertMsg(called == "", "disabled-builtin-never-called", pr.src+" called: "+called)
	verifrt.Reached("end")
}

// verifAllBuiltinNames: every name in BuiltinsMap, sorted.
func verifAllBuiltinNames() []string {
	var names []string
	for n := range BuiltinsMap {
		if n == "" || n[0] == ':' {
			continue // the compiler's private builtins are not identifiers
		}
		names = append(names, n)
	}
	sort.Strings(names)
	return names
}

// VerifC13EveryName: the name dimension. Each single builtin name in
// BuiltinsMap (a search-tree choice over all of them), alone or together with
// one of two other names, is disabled; a reference to it from the top level,
// from a nested closure, from an imported source module, from an expression
// the optimizer evaluates, from a later Eval fragment or from a function
// defined in an earlier fragment is a compile error, the same name declared
// by the script itself compiles, and no produced Bytecode refers to the
// builtin.
func VerifC13EveryName() {
	names := verifAllBuiltinNames()
	name := names[verifrt.Choice("name", len(names))]
	dis := []string{name}
	switch verifrt.Choice("with", 3) {
	case 1:
		dis = append(dis, "len")
	case 2:
		dis = []string{"append", name}
	}
	st := NewSymbolTable()
	st.DisableBuiltin(dis...)
	mm := NewModuleMap()
	mm.AddSourceModule("m", []byte(`return func() { return `+name+` }`))
	opts := CompilerOptions{ModuleMap: mm, SymbolTable: st, NoOptimize: verifrt.Param("opt") == 0}
	mustFail := true
	var frags []string
	switch verifrt.Param("shape") {
	case 0:
		frags = []string{`return ` + name}
	case 1:
		frags = []string{`f := func() { x := 1; return func() { return [x, ` + name + `] } }; return f`}
	case 2:
		frags = []string{`x := 1; if x { m := import("m"); return m }; return 0`}
	case 3:
		frags = []string{`const k = 2; for i := 0; i < 1; i++ { return k + 1 > 2 ? ` + name + ` : 0 }`}
	case 4:
		frags = []string{`a := 1`, `b := func() { return ` + name + ` }; return b`}
	case 5:
		frags = []string{`a := 1; return a`, `try { return a } finally { a = ` + name + ` }`}
	case 6:
		mustFail = false
		frags = []string{name + ` := 5; f := func() { return ` + name + ` }; return f()`}
	default:
		mustFail = false
		frags = []string{`f := func(` + name + `) { return ` + name + ` }; return f(1)`, `var ` + name + `; return ` + name}
	}
	failed := false
	var bcs []*Bytecode
	verifrt.NoPanic("compile-no-panic", func() {
		if len(frags) == 1 {
			bc, err := Compile([]byte(frags[0]), opts)
			failed = err != nil
			if bc != nil {
				bcs = append(bcs, bc)
			}
			return
		}
		e := NewEval(opts, nil)
		for _, f := range frags {
			_, bc, err := e.Run(context.Background(), []byte(f))
			if bc != nil {
				bcs = append(bcs, bc)
			}
			if err != nil {
				failed = true
				break
			}
		}
	})
	verifrt.AssertMsg(failed == mustFail, "disabled-reference-is-a-compile-error", name)
	for _, bc := range bcs {
		for idx := range verifFindBuiltinRefs(bc) {
			for _, n := range dis {
				verifrt.AssertMsg(int(BuiltinsMap[n]) != idx, "no-disabled-builtin-in-bytecode", name)
			}
		}
	}
	verifrt.Reached("end")
}
