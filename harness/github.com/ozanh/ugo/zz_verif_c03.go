//go:build verif

package ugo

import (
	"strconv"

	"github.com/ozanh/ugo/internal/verifrt"
)

// ---------------------------------------------------------------------------
// C03 shape language: a tiny statement tree from which both the uGO script
// and the expected behaviour (documented ECMAScript-like completion
// semantics) are derived.

const (
	c3Seq = iota
	c3Log
	c3Exit
	c3Try
	c3Loop
	c3Call
)

type c3node struct {
	kind       int
	tag        string
	site       int
	kids       []*c3node // Seq: children; Try: body, catch, finally (nil if absent); Loop/Call: body
	inLoop     bool      // for Exit: break/continue are available
	catchNamed bool
}

// completion kinds
const (
	c3Normal = iota
	c3Return
	c3Break
	c3Continue
	c3Throw
)

type c3comp struct {
	kind          int
	val           string // returned string
	ename, emsg   string // thrown error
}

type c3ref struct {
	sel []int64
	log string
}

func (r *c3ref) eval(n *c3node) c3comp {
	switch n.kind {
	case c3Seq:
		for _, k := range n.kids {
			if c := r.eval(k); c.kind != c3Normal {
				return c
			}
		}
	case c3Log:
		r.log += n.tag + ";"
	case c3Exit:
		e := r.sel[n.site]
		s := strconv.Itoa(n.site)
		switch {
		case e == 1:
			return c3comp{kind: c3Return, val: "r" + s}
		case e == 2 && n.inLoop:
			return c3comp{kind: c3Break}
		case e == 3 && n.inLoop:
			return c3comp{kind: c3Continue}
		case e == 4:
			return c3comp{kind: c3Throw, ename: "", emsg: "t" + s}
		case e == 5:
			return c3comp{kind: c3Throw, ename: "ZeroDivisionError", emsg: ""}
		}
	case c3Try:
		c := r.eval(n.kids[0])
		if c.kind == c3Throw && n.kids[1] != nil {
			// the error is bound to the catch variable, which the catch body logs
			if n.catchNamed {
				r.log += "caught " + c.ename + ":" + c.emsg + ";"
			}
			c = r.eval(n.kids[1])
		}
		if n.kids[2] != nil {
			if f := r.eval(n.kids[2]); f.kind != c3Normal {
				c = f
			}
		}
		return c
	case c3Loop:
		for i := 0; i < 2; i++ {
			r.log += "iter" + strconv.Itoa(i) + ";"
			c := r.eval(n.kids[0])
			if c.kind == c3Break {
				break
			}
			if c.kind == c3Return || c.kind == c3Throw {
				return c
			}
		}
	case c3Call:
		c := r.eval(n.kids[0])
		switch c.kind {
		case c3Throw:
			return c
		case c3Return:
			r.log += "ret " + c.val + ";"
		default:
			r.log += "ret undefined;"
		}
	}
	return c3comp{}
}

// script printing
type c3printer struct {
	s     string
	nfunc int
}

func (p *c3printer) emit(n *c3node, ind string) {
	switch n.kind {
	case c3Seq:
		for _, k := range n.kids {
			p.emit(k, ind)
		}
	case c3Log:
		p.s += ind + "out(\"" + n.tag + "\")\n"
	case c3Exit:
		s := strconv.Itoa(n.site)
		p.s += ind + "if e" + s + " == 1 { return \"r" + s + "\" }"
		if n.inLoop {
			p.s += " else if e" + s + " == 2 { break } else if e" + s + " == 3 { continue }"
		}
		p.s += " else if e" + s + " == 4 { throw \"t" + s + "\" } else if e" + s + " == 5 { out(1 / zero) }\n"
	case c3Try:
		p.s += ind + "try {\n"
		p.emit(n.kids[0], ind+"\t")
		p.s += ind + "}"
		if n.kids[1] != nil {
			if n.catchNamed {
				p.s += " catch err {\n" + ind + "\tout(\"caught \" + err.Name + \":\" + err.Message)\n"
			} else {
				p.s += " catch {\n"
			}
			p.emit(n.kids[1], ind+"\t")
			p.s += ind + "}"
		}
		if n.kids[2] != nil {
			p.s += " finally {\n"
			p.emit(n.kids[2], ind+"\t")
			p.s += ind + "}"
		}
		p.s += "\n"
	case c3Loop:
		p.s += ind + "for i := 0; i < 2; i++ {\n" + ind + "\tout(\"iter\" + string(i))\n"
		p.emit(n.kids[0], ind+"\t")
		p.s += ind + "}\n"
	case c3Call:
		f := "f" + strconv.Itoa(p.nfunc)
		p.nfunc++
		p.s += ind + f + " := func() {\n"
		p.emit(n.kids[0], ind+"\t")
		p.s += ind + "}\n" + ind + "out(\"ret \" + string(" + f + "()))\n"
	}
}

// ---------------------------------------------------------------------------
// shape generation

type c3gen struct {
	nlog  int
	nsite int
}

func (g *c3gen) log() *c3node {
	g.nlog++
	return &c3node{kind: c3Log, tag: "L" + strconv.Itoa(g.nlog)}
}

// part codes: 0 = log only, 1 = log, exit, log, 2 = nested
func (g *c3gen) part(code int, nested func() *c3node, inLoop bool) *c3node {
	if code == 2 && nested == nil {
		code = 1
	}
	switch code {
	case 1:
		e := &c3node{kind: c3Exit, site: g.nsite, inLoop: inLoop}
		g.nsite++
		return &c3node{kind: c3Seq, kids: []*c3node{g.log(), e, g.log()}}
	case 2:
		return &c3node{kind: c3Seq, kids: []*c3node{g.log(), nested(), g.log()}}
	}
	return &c3node{kind: c3Seq, kids: []*c3node{g.log()}}
}

// Counting and unranking: shapes of a given depth are numbered 0..c3Count-1.
func c3Count(depth int) int {
	if depth <= 0 {
		return 0
	}
	sub := c3Count(depth - 1)
	body := 1 + sub  // exit leaf, or nested
	other := 2 + sub // log only, exit leaf, or nested
	return body*other*2 + body*other + body*other*2*other + body + body
}

// unrankPart decodes a part index: leafCodes are the leaf variants allowed.
func (g *c3gen) unrankPart(idx int, bodyPart bool, depth int, inLoop bool) *c3node {
	leaves := 2
	if bodyPart {
		leaves = 1
	}
	if idx < leaves {
		code := idx
		if bodyPart {
			code = 1
		}
		return g.part(code, nil, inLoop)
	}
	sub := idx - leaves
	return g.part(2, func() *c3node { return g.build(sub, depth-1, inLoop) }, inLoop)
}

func (g *c3gen) build(id int, depth int, inLoop bool) *c3node {
	sub := c3Count(depth - 1)
	body := 1 + sub
	other := 2 + sub
	nTC, nTF, nTCF := body*other*2, body*other, body*other*2*other
	switch {
	case id < nTC:
		n := &c3node{kind: c3Try, kids: []*c3node{nil, nil, nil}}
		n.kids[0] = g.unrankPart(id%body, true, depth, inLoop)
		id /= body
		n.kids[1] = g.unrankPart(id%other, false, depth, inLoop)
		id /= other
		n.catchNamed = id == 0
		return n
	case id < nTC+nTF:
		id -= nTC
		n := &c3node{kind: c3Try, kids: []*c3node{nil, nil, nil}}
		n.kids[0] = g.unrankPart(id%body, true, depth, inLoop)
		id /= body
		n.kids[2] = g.unrankPart(id%other, false, depth, inLoop)
		return n
	case id < nTC+nTF+nTCF:
		id -= nTC + nTF
		n := &c3node{kind: c3Try, kids: []*c3node{nil, nil, nil}}
		n.kids[0] = g.unrankPart(id%body, true, depth, inLoop)
		id /= body
		n.kids[1] = g.unrankPart(id%other, false, depth, inLoop)
		id /= other
		n.catchNamed = id%2 == 0
		id /= 2
		n.kids[2] = g.unrankPart(id%other, false, depth, inLoop)
		return n
	case id < nTC+nTF+nTCF+body:
		id -= nTC + nTF + nTCF
		return &c3node{kind: c3Loop, kids: []*c3node{g.unrankPart(id, true, depth, true)}}
	}
	id -= nTC + nTF + nTCF + body
	return &c3node{kind: c3Call, kids: []*c3node{g.unrankPart(id, true, depth, false)}}
}

// Hand-built shapes beyond the sampled depth: combinations that need a call
// inside a finally/catch block of a function that is itself called under a try.
func (g *c3gen) exitLeaf(inLoop bool) *c3node { return g.part(1, nil, inLoop) }
func (g *c3gen) wrap(n *c3node) *c3node {
	return &c3node{kind: c3Seq, kids: []*c3node{g.log(), n, g.log()}}
}
func (g *c3gen) try(body, catch, fin *c3node, named bool) *c3node {
	return &c3node{kind: c3Try, kids: []*c3node{body, catch, fin}, catchNamed: named}
}
func (g *c3gen) call(body *c3node) *c3node { return &c3node{kind: c3Call, kids: []*c3node{body}} }
func (g *c3gen) loop(body *c3node) *c3node { return &c3node{kind: c3Loop, kids: []*c3node{body}} }

const c3NumFixed = 15

func (g *c3gen) fixed(k int) *c3node {
	switch k {
	case 0: // callee throws from inside a finally block of a function called under try/catch
		return g.try(g.wrap(g.call(g.wrap(g.try(g.exitLeaf(false), nil, g.wrap(g.call(g.exitLeaf(false))), false)))), g.part(0, nil, false), nil, true)
	case 1: // same with the callee inside a catch block
		return g.try(g.wrap(g.call(g.wrap(g.try(g.exitLeaf(false), g.wrap(g.call(g.exitLeaf(false))), nil, true)))), g.part(0, nil, false), g.part(0, nil, false), true)
	case 2: // loop { try/finally { exit } finally { try/catch { exit } } }
		return g.loop(g.wrap(g.try(g.exitLeaf(true), nil, g.wrap(g.try(g.exitLeaf(true), g.part(0, nil, true), nil, true)), false)))
	case 3: // nested finally chain with a call in the innermost
		return g.try(g.wrap(g.try(g.wrap(g.call(g.exitLeaf(false))), nil, g.exitLeaf(false), false)), g.exitLeaf(false), g.part(0, nil, false), true)
	case 4: // function whose finally returns while an error is pending, called in a loop under try
		return g.loop(g.wrap(g.try(g.wrap(g.call(g.wrap(g.try(g.exitLeaf(false), nil, g.exitLeaf(false), false)))), g.part(0, nil, true), nil, false)))
	case 5: // try in catch in finally
		return g.try(g.exitLeaf(false), nil, g.wrap(g.try(g.exitLeaf(false), g.wrap(g.try(g.exitLeaf(false), nil, g.part(0, nil, false), false)), nil, true)), false)
	case 6: // two sequential try statements inside a function, second leaves through both
		return g.call(&c3node{kind: c3Seq, kids: []*c3node{g.try(g.exitLeaf(false), g.part(0, nil, false), nil, false), g.try(g.exitLeaf(false), nil, g.exitLeaf(false), false)}})
	case 8: // loop inside a finally block whose body leaves a nested try with break/continue while a return/error is pending
		return g.call(g.wrap(g.try(g.exitLeaf(false), nil, g.wrap(g.loop(g.wrap(g.try(g.exitLeaf(true), nil, g.part(0, nil, true), false)))), false)))
	case 9: // break/continue directly out of a finally block, in a loop
		return g.loop(g.wrap(g.try(g.exitLeaf(true), nil, g.exitLeaf(true), false)))
	case 10: // break/continue out of a catch block with a finally, in a loop, after a completed try
		return g.loop(&c3node{kind: c3Seq, kids: []*c3node{g.try(g.part(0, nil, true), nil, g.part(0, nil, true), false), g.try(g.exitLeaf(true), g.exitLeaf(true), g.part(0, nil, true), true)}})
	case 12: // a callee throws while its caller runs the finally block of a try nested in another live try of the same function
		return g.call(g.wrap(g.try(g.wrap(g.try(g.part(0, nil, false), nil, g.wrap(g.call(g.exitLeaf(false))), false)), g.part(0, nil, false), g.part(0, nil, false), true)))
	case 13: // the same at the top level, with an exit pending in the inner try body and an exit in the outer catch
		return g.try(g.wrap(g.try(g.exitLeaf(false), nil, g.wrap(g.call(g.exitLeaf(false))), false)), g.exitLeaf(false), g.part(0, nil, false), true)
	case 14: // two levels of calls between the thrower and the nested finally
		return g.try(g.wrap(g.try(g.part(0, nil, false), g.part(0, nil, false), g.wrap(g.call(g.wrap(g.call(g.exitLeaf(false))))), true)), nil, g.exitLeaf(false), false)
	case 11: // return inside a finally nested in another try/finally in a loop
		return g.call(g.wrap(g.loop(g.wrap(g.try(g.wrap(g.try(g.exitLeaf(true), nil, g.exitLeaf(true), false)), nil, g.exitLeaf(true), false)))))
	}
	// 7: loop in finally with break/continue while a return is pending
	return g.call(g.wrap(g.try(g.exitLeaf(false), nil, g.wrap(g.loop(g.exitLeaf(true))), false)))
}

// prefixes: try statements that have already completed in the same activation
var c3Prefixes = [...]string{
	"",
	"try {} finally {}\n",
	"try { out(\"p1\") } catch { out(\"p2\") }\n",
	"try { throw \"px\" } catch perr { out(\"p3\") } finally { out(\"p4\") }\n",
	"try {} finally {}\ntry { throw \"py\" } catch {}\n",
	"for j := 0; j < 2; j++ { try { if j == 0 { continue } } finally { out(\"p5\") } }\n",
	"pf := func() { try { return 1 } finally { out(\"p6\") } }\npf()\n",
}

var c3PrefixLogs = [...]string{"", "", "p1;", "p3;p4;", "", "p5;p5;", "p6;"}

// VerifC03Shape: one shape (params: id, depth, prefix); every combination of
// exit kinds at its exit sites is decided by the solver.
func VerifC03Shape() {
	g := &c3gen{}
	depth := verifrt.Param("depth")
	var root *c3node
	wrap := verifrt.Param("wrap")
	if depth == 0 {
		root = g.fixed(verifrt.Param("id"))
	} else {
		root = g.build(verifrt.Param("id")%c3Count(depth), depth, wrap == 3)
	}
	// the shape nested inside an enclosing construct: every shape is also
	// exercised with enclosing handlers and loops around it
	switch wrap {
	case 1:
		root = g.try(g.wrap(root), nil, g.part(0, nil, false), false)
	case 2:
		root = g.try(g.wrap(root), g.part(0, nil, false), g.exitLeaf(false), true)
	case 3:
		root = g.loop(g.wrap(g.try(g.wrap(root), nil, g.part(0, nil, true), false)))
	case 4:
		root = g.call(g.wrap(g.try(g.wrap(root), nil, g.part(0, nil, false), false)))
	}
	nsite := g.nsite
	verifrt.Assume(nsite >= 1 && nsite <= verifrt.Param("maxsites"))
	pfx := verifrt.Param("prefix")

	p := &c3printer{}
	p.emit(root, "")
	params := "zero"
	for i := 0; i < nsite; i++ {
		params += ", e" + strconv.Itoa(i)
	}
	src := "param (" + params + ")\n" + c3Prefixes[pfx] + p.s + "return \"end\"\n"

	args := []Object{Int(0)}
	sel := make([]int64, nsite)
	names := [...]string{"e0", "e1", "e2", "e3", "e4"}
	for i := 0; i < nsite; i++ {
		sel[i] = verifrt.Int64(names[i])
		verifrt.Assume(sel[i] >= 0 && sel[i] <= 5)
		args = append(args, Int(sel[i]))
	}
	ref := &c3ref{sel: sel, log: c3PrefixLogs[pfx]}
	want := ref.eval(root)

	opts := CompilerOptions{NoOptimize: verifrt.Param("opt") == 0}
	var got verifOutcome
	verifrt.NoPanic("run-no-panic", func() { got = verifRun(src, opts, nil, args...) })
	verifrt.AssertMsg(got.compErr == nil, "shape-compiles", src)
	if got.compErr == nil {
		verifrt.AssertMsg(got.out == ref.log, "finally-and-catch-log", src)
		switch want.kind {
		case c3Return:
			verifrt.AssertMsg(got.err == nil && got.val != nil && got.val.Equal(String(want.val)), "pending-return-survives", src)
		case c3Throw:
			n, m := verifErrNameMsg(got.err)
			verifrt.AssertMsg(got.err != nil && n == want.ename && m == want.emsg, "pending-error-survives", src)
		default:
			verifrt.AssertMsg(got.err == nil && got.val != nil && got.val.Equal(String("end")), "normal-completion", src)
		}
	}
	verifrt.ClearKnown()
	verifrt.Reached("end")
}
