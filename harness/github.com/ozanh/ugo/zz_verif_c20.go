//go:build verif

package ugo

import (
	"math"

	"github.com/ozanh/ugo/internal/verifrt"
)

// verifGoValue builds a canonical Go value (the counterparts named in the
// property) of symbolic kind and payload, nested up to depth.
func verifGoValue(name string, depth int) any {
	n := 8
	if depth > 0 {
		n = 10
	}
	switch verifrt.Choice(name+".k", n) {
	case 0:
		return nil
	case 1:
		return verifrt.Int64(name + ".i")
	case 2:
		return verifrt.Uint64(name + ".u")
	case 3:
		return verifrt.Float64Bits(name + ".f")
	case 4:
		return verifrt.Bool(name + ".b")
	case 5:
		return rune(verifrt.Int32(name + ".c"))
	case 6:
		return verifrt.String(name+".s", verifrt.Choice(name+".sl", 3))
	case 7:
		switch verifrt.Choice(name+".yl", 3) {
		case 0:
			return []byte(nil)
		case 1:
			return []byte{}
		}
		return verifrt.Bytes(name+".y", 1)
	case 8:
		switch l := verifrt.Choice(name+".al", 4); l {
		case 0:
			return []any(nil)
		case 1:
			return []any{}
		default:
			a := make([]any, l-1)
			for i := range a {
				a[i] = verifGoValue(name+".e", depth-1)
			}
			return a
		}
	}
	switch l := verifrt.Choice(name+".ml", 4); l {
	case 0:
		return map[string]any(nil)
	case 1:
		return map[string]any{}
	default:
		m := make(map[string]any, l-1)
		keys := [...]string{"a", ""}
		for i := 0; i < l-1; i++ {
			m[keys[i]] = verifGoValue(name+".v", depth-1)
		}
		return m
	}
}

// verifSameGo: same Go value of the same types; nil and empty containers are
// interchangeable; floats bit-exact (all NaNs one value).
func verifSameGo(a, b any) bool {
	switch x := a.(type) {
	case nil:
		return b == nil
	case int64:
		y, ok := b.(int64)
		return ok && x == y
	case uint64:
		y, ok := b.(uint64)
		return ok && x == y
	case float64:
		y, ok := b.(float64)
		return ok && (math.Float64bits(x) == math.Float64bits(y) || (x != x && y != y))
	case bool:
		y, ok := b.(bool)
		return ok && x == y
	case rune:
		y, ok := b.(rune)
		return ok && x == y
	case string:
		y, ok := b.(string)
		return ok && x == y
	case []byte:
		y, ok := b.([]byte)
		if !ok || len(x) != len(y) {
			return false
		}
		for i := range x {
			if x[i] != y[i] {
				return false
			}
		}
		return true
	case []any:
		y, ok := b.([]any)
		if !ok || len(x) != len(y) {
			return false
		}
		for i := range x {
			if !verifSameGo(x[i], y[i]) {
				return false
			}
		}
		return true
	case map[string]any:
		y, ok := b.(map[string]any)
		if !ok || len(x) != len(y) {
			return false
		}
		for k, v := range x {
			w, ok := y[k]
			if !ok || !verifSameGo(v, w) {
				return false
			}
		}
		return true
	}
	return false
}

// VerifC20GoRoundTrip: Go -> uGO -> Go is the identity on canonical values.
func VerifC20GoRoundTrip() {
	v := verifGoValue("v", verifrt.Param("depth"))
	alt := verifrt.Param("alt") == 1
	var o Object
	var err error
	var back any
	verifrt.NoPanic("conversion-no-panic", func() {
		if alt {
			o, err = ToObjectAlt(v)
		} else {
			o, err = ToObject(v)
		}
		if err == nil {
			back = ToInterface(o)
		}
	})
	// ToObjectAlt is documented to turn every signed integer (rune included) into int
	verifrt.Assume(!(alt && verifHasRune(v)))
	verifrt.Assert(err == nil, "canonical-go-value-converts")
	if err == nil {
		verifrt.Assert(verifSameGo(v, back), "go-roundtrip-identity")
	}
	verifrt.ClearKnown()
	verifrt.Reached("end")
}

func verifHasRune(v any) bool {
	switch x := v.(type) {
	case rune:
		return true
	case []any:
		for _, e := range x {
			if verifHasRune(e) {
				return true
			}
		}
	case map[string]any:
		for _, e := range x {
			if verifHasRune(e) {
				return true
			}
		}
	}
	return false
}

// VerifC20ObjectRoundTrip: uGO -> Go -> uGO is the identity on plain values.
func VerifC20ObjectRoundTrip() {
	a := verifObjectK("o", vkNumKinds, 2)
	var back Object
	var err error
	verifrt.NoPanic("conversion-no-panic", func() {
		g := ToInterface(a.o)
		if verifrt.Param("alt") == 1 {
			back, err = ToObjectAlt(g)
		} else {
			back, err = ToObject(g)
		}
	})
	hasChar := a.k == vkChar
	for _, ek := range a.elems {
		hasChar = hasChar || ek == vkChar
	}
	verifrt.Assume(!(verifrt.Param("alt") == 1 && hasChar))
	verifrt.Assert(err == nil, "plain-value-converts-back")
	if err == nil {
		verifrt.Assert(verifSameObject(a.o, back), "object-roundtrip-identity")
	}
	verifrt.ClearKnown()
	verifrt.Reached("end")
}

// VerifC20Shared: value graphs with sharing - one array or map referenced
// several times, arrays and byte strings that are re-slices of one backing
// array (prefixes, suffixes, empty slices) at different depths - convert to Go
// and back (and Go values with the same sharing convert to uGO and back) to a
// deep-equal value: every reference keeps its own length and contents.
func VerifC20Shared() {
	i0, i1, i2 := Int(verifrt.Int64("i0")), Int(verifrt.Int64("i1")), Int(verifrt.Int64("i2"))
	k := verifrt.Choice("k", 4) // prefix length 0..3
	a := Array{i0, i1, i2}
	m := Map{"x": i0, "y": String("s")}
	b := Bytes{byte(verifrt.Byte("b0")), 2, 3}
	var v Object
	switch verifrt.Param("shape") {
	case 0:
		v = Array{a, a[:k]}
	case 1:
		v = Array{a[:k], a}
	case 2:
		v = Map{"full": a, "short": a[:k], "tail": a[1:]}
	case 3:
		v = Array{a, a, m, m, Map{"in": m, "arr": a}}
	case 4:
		v = Array{b, b[:k], b[1:], String("abc")[:k]}
	case 5:
		v = Array{Array{a[:1]}, Map{"k": a[:2], "e": a[:0]}, a, Array{a[k:]}}
	}
	var back Object
	var err error
	verifrt.NoPanic("conversion-no-panic", func() {
		back, err = ToObject(ToInterface(v))
	})
	verifrt.Assert(err == nil, "shared-value-converts-back")
	if err == nil {
		verifrt.Assert(verifSameObject(v, back), "shared-object-roundtrip-identity")
	}
	// the same sharing on the Go side
	ga := []any{int64(i0), int64(i1), int64(i2)}
	gm := map[string]any{"x": int64(i0)}
	var gv any
	switch verifrt.Param("shape") {
	case 0, 1:
		gv = []any{ga, ga[:k]}
	case 2:
		gv = map[string]any{"full": ga, "short": ga[:k], "tail": ga[1:]}
	case 3:
		gv = []any{ga, ga, gm, gm, map[string]any{"in": gm, "arr": ga}}
	case 4:
		gb := []byte{1, 2, 3}
		gv = []any{gb, gb[:k], gb[1:]}
	default:
		gv = []any{[]any{ga[:1]}, map[string]any{"k": ga[:2], "e": ga[:0]}, ga, []any{ga[k:]}}
	}
	var gback any
	verifrt.NoPanic("go-conversion-no-panic", func() {
		var o Object
		o, err = ToObject(gv)
		if err == nil {
			gback = ToInterface(o)
		}
	})
	verifrt.Assert(err == nil, "shared-go-value-converts")
	if err == nil {
		verifrt.Assert(verifSameGo(gv, gback), "shared-go-roundtrip-identity")
	}
	verifrt.Reached("end")
}

type verifUnsupportedStruct struct{ X int }

// VerifC20Widths: every other supported Go integer/float width converts to
// the uGO value with the same numeric value; unsupported types are errors.
func VerifC20Widths() {
	k := verifrt.Choice("k", 20)
	alt := verifrt.Param("alt") == 1
	var in any
	var want Object
	unsupported := false
	i64 := verifrt.Int64("x")
	switch k {
	case 0:
		in, want = int(i64), Int(i64)
	case 1:
		in, want = uint(i64), Uint(uint64(i64))
	case 2:
		in, want = uintptr(i64), Uint(uint64(i64))
	case 3:
		f := float32(math.Float32frombits(uint32(i64)))
		in, want = f, Float(float64(f))
	case 4:
		in, want = int32(i64), Int(int32(i64))
		if !alt {
			want = Char(int32(i64)) // rune is int32
		}
	case 5:
		in, want = int16(i64), Int(int16(i64))
		unsupported = !alt
	case 6:
		in, want = int8(i64), Int(int8(i64))
		unsupported = !alt
	case 7:
		in, want = uint32(i64), Uint(uint32(i64))
		unsupported = !alt
	case 8:
		in, want = uint16(i64), Uint(uint16(i64))
		unsupported = !alt
	case 9:
		in, want = uint8(i64), Uint(uint8(i64))
		if !alt {
			want = Char(uint8(i64)) // byte converts to char in ToObject
		}
	case 10:
		in, unsupported = verifUnsupportedStruct{X: int(i64)}, true
	case 11:
		in, unsupported = make(chan int), true
	case 12:
		in, unsupported = func() {}, true
	case 13:
		x := int(i64)
		in, unsupported = &x, true
	case 14:
		in, unsupported = map[int]int{1: 2}, true
	case 15:
		in, unsupported = []int{1}, true
	case 16:
		in, unsupported = complex(1, 2), true
	case 17:
		in, unsupported = []string{"a"}, true
	case 18:
		in, unsupported = [2]int{1, 2}, true
	case 19:
		// an unsupported value nested in a container must surface as an error
		// wherever it sits
		bad := any(verifUnsupportedStruct{})
		switch verifrt.Choice("where", 4) {
		case 0:
			in = []any{bad, i64}
		case 1:
			in = []any{i64, bad}
		case 2:
			in = []any{i64, bad, i64}
		default:
			in = map[string]any{"a": i64, "b": []any{bad, i64}}
		}
		unsupported = true
	}
	var got Object
	var err error
	verifrt.NoPanic("conversion-no-panic", func() {
		if alt {
			got, err = ToObjectAlt(in)
		} else {
			got, err = ToObject(in)
		}
	})
	if unsupported {
		verifrt.Assert(err != nil, "unsupported-type-is-an-error")
	} else {
		verifrt.Assert(err == nil, "supported-width-converts")
		if err == nil {
			verifrt.Assert(verifSameObject(got, want), "same-numeric-value")
		}
	}
	verifrt.Reached("end")
}
