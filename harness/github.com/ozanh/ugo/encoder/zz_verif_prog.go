//go:build verif

package encoder

import (
	"bytes"

	"github.com/ozanh/ugo"
	"github.com/ozanh/ugo/internal/verifrt"
)

var verifC04Progs = [...]string{
	// 0: every scalar constant kind incl. extremes
	`param a; return [9223372036854775807, -9223372036854775808, 18446744073709551615u, 1.5, -2.25e300, 'x', '世', "", "s\xffz", true, false, undefined, a]`,
	// 1: closures and nested functions
	`param a; mk := func(n) { return func(x) { n += x; return n } }; f := mk(a); f(1); g := mk(10); return [f(2), g(3)]`,
	// 2: source module import with state
	`param a; m := import("src1"); m.add(a); m2 := import("src1"); return [m.get(), m2.get(), m == m2]`,
	// 3: builtin module values of several kinds
	`param a; b := import("bmod"); return [b.i, b.f, b.s, b.arr, b.m.k, b.fn(a), b.u, b.c, b.t, b.sub.fn(a), b.list[1](a), b.sub.deep.fn(2)]`,
	// 4: error with position inside a function (stack trace lines survive)
	`param a
f := func(x) {
	return 10 / x
}
return f(a)`,
	// 5: negative zero and special floats as constants
	`param a; x := -0.0; y := 0.0; return [string(x), string(y), 1.0 / (a ? x : y) < 0]`,
	// 6: try/finally + loops + map/array literals
	`param a; r := {n: 0, l: []}; for i := 0; i < 3; i++ { try { if i == a { throw "t" }; r.l = append(r.l, i) } catch e { r.n++ } finally { r.n += 10 } }; return r`,
	// 7: module importing a module, function constants inside modules
	`param a; m := import("src2"); return m.twice(a) + import("src1").get()`,
}

func verifModules() *ugo.ModuleMap {
	mm := ugo.NewModuleMap()
	mm.AddSourceModule("src1", []byte(`v := 0; return {add: func(x) { v += x }, get: func() { return v }}`))
	mm.AddSourceModule("src2", []byte(`s := import("src1"); s.add(100); return {twice: func(x) { return x * 2 }}`))
	inc := &ugo.Function{Name: "inc", Value: func(args ...ugo.Object) (ugo.Object, error) {
		if len(args) == 1 {
			if v, ok := args[0].(ugo.Int); ok {
				return v + 100, nil
			}
		}
		return ugo.Undefined, nil
	}}
	mm.AddBuiltinModule("bmod", map[string]ugo.Object{
		"sub":  ugo.Map{"fn": inc, "deep": ugo.Map{"fn": inc}},
		"list": ugo.Array{ugo.Int(0), inc},
		"i": ugo.Int(-7), "u": ugo.Uint(7), "f": ugo.Float(2.5), "s": ugo.String("str"), "c": ugo.Char('c'), "t": ugo.True,
		"arr": ugo.Array{ugo.Int(1), ugo.String("two")},
		"m":   ugo.Map{"k": ugo.Int(3)},
		"fn": &ugo.Function{Name: "fn", Value: func(args ...ugo.Object) (ugo.Object, error) {
			if len(args) == 1 {
				if v, ok := args[0].(ugo.Int); ok {
					return v + 1, nil
				}
			}
			return ugo.Undefined, nil
		}},
	})
	return mm
}

func verifEncDec(bc *ugo.Bytecode, mm *ugo.ModuleMap) (*ugo.Bytecode, []byte, error) {
	var buf bytes.Buffer
	if err := EncodeBytecodeTo(bc, &buf); err != nil {
		return nil, nil, err
	}
	data := append([]byte{}, buf.Bytes()...)
	got, err := DecodeBytecodeFrom(&buf, mm)
	return got, data, err
}

func verifSameRun(b1, b2 *ugo.Bytecode, a ...ugo.Object) bool {
	v1, e1, o1 := ugo.VerifRunBC(b1, a...)
	v2, e2, o2 := ugo.VerifRunBC(b2, a...)
	if !ugo.VerifSameError(e1, e2) || o1 != o2 {
		return false
	}
	if e1 != nil {
		return verifSameTrace(e1, e2)
	}
	return ugo.VerifSameObject(v1, v2)
}

// VerifC04Prog: encode/decode of a compiled program preserves its behaviour
// for every argument, and decoding is stable (a second round trip again).
func VerifC04Prog() {
	verifC04Check(verifC04Progs[verifrt.Param("prog")], nil)
}

// VerifC04Corpus: the same for every program of the shared corpus.
func VerifC04Corpus() {
	verifrt.Assert(ugo.VerifCorpusLen() == verifrt.Param("len"), "job-table-covers-the-corpus")
	src, args := ugo.VerifCorpus(verifrt.Param("prog"))
	verifC04Check(src, args)
}

func verifC04Check(src string, args []ugo.Object) {
	mm := verifModules()
	bc, err := ugo.Compile([]byte(src), ugo.CompilerOptions{ModuleMap: mm})
	verifrt.Assert(err == nil, "compiles")
	if err != nil {
		return
	}
	var d1, d2 *ugo.Bytecode
	var err1, err2 error
	verifrt.NoPanic("encdec-no-panic", func() {
		d1, _, err1 = verifEncDec(bc, mm)
		if err1 == nil {
			d2, _, err2 = verifEncDec(d1, mm)
		}
	})
	verifrt.Assert(err1 == nil && err2 == nil, "decode-succeeds")
	if err1 == nil && err2 == nil && d1 != nil && d2 != nil {
		if args == nil {
			args = []ugo.Object{ugo.Int(verifrt.Int64("a"))}
		}
		verifrt.Assert(verifSameRun(bc, d1, args...), "decoded-runs-like-original")
		verifrt.Assert(verifSameRun(bc, d2, args...), "twice-decoded-runs-like-original")
	}
	verifrt.Reached("end")
}

// ---------------------------------------------------------------------------
// C18: corruptions and truncations of valid encodings

var verifC18Seeds = [...]string{
	`param a; return a + 1`,
	`param a; f := func(x) { if x { return "s" }; return [1.5, 'c', 2u] }; return f(a)`,
	`param a; try { return {k: a}[a] } catch e { return string(e) } finally { a = 0 }`,
	`m := import("src1"); m.add(3); return m.get()`,
	`b := import("bmod"); return [b.fn(1), b.sub.fn(2), b.s]`,
}

func verifSeedBytes(i int) []byte {
	mm := verifModules()
	bc, err := ugo.Compile([]byte(verifC18Seeds[i]), ugo.CompilerOptions{ModuleMap: mm})
	if err != nil {
		panic(err)
	}
	if verifrt.Param("version") == 1 {
		// the same program as format version 1 (narrow jump operands)
		v1 := &ugo.Bytecode{FileSet: bc.FileSet, NumModules: bc.NumModules}
		var ok bool
		if v1.Main, ok = verifDownConvert(bc.Main); !ok {
			panic("seed not convertible to v1")
		}
		for _, c := range bc.Constants {
			if cf, isCF := c.(*ugo.CompiledFunction); isCF {
				d, ok := verifDownConvert(cf)
				if !ok {
					panic("seed not convertible to v1")
				}
				v1.Constants = append(v1.Constants, d)
			} else {
				v1.Constants = append(v1.Constants, c)
			}
		}
		data, err := (*Bytecode)(v1).MarshalBinary()
		if err != nil {
			panic(err)
		}
		data[4], data[5] = 0, 1
		return data
	}
	data, err := (*Bytecode)(bc).MarshalBinary()
	if err != nil {
		panic(err)
	}
	return data
}

// VerifC18Corrupt: in the encoding of a real program, "width" consecutive
// bytes at every position (a search-tree choice) take arbitrary values; the
// decoder returns a value or an error, never a panic, and allocates in
// proportion to the input.
func VerifC18Corrupt() {
	data := verifSeedBytes(verifrt.Param("seed"))
	w := verifrt.Param("width")
	pos := 6 + verifrt.Choice("pos", len(data)-6-w+1)
	b := verifrt.Bytes("c", w)
	for i := 0; i < w; i++ {
		data[pos+i] = b[i]
	}
	verifrt.AllocBudget(1 << 16)
	verifrt.NoPanic("decode-no-panic", func() {
		var bc Bytecode
		_ = bc.unmarshal(data, verifModules())
	})
	verifrt.Reached("end")
}

// VerifC18Truncate: every prefix of a valid encoding.
func VerifC18Truncate() {
	data := verifSeedBytes(verifrt.Param("seed"))
	n := verifrt.Choice("len", len(data))
	verifrt.NoPanic("decode-no-panic", func() {
		var bc Bytecode
		_ = bc.unmarshal(data[:n], verifModules())
	})
	verifrt.Reached("end")
}

// VerifC18Inner: a well-framed container (correct tag and outer size) whose
// n payload bytes are arbitrary: reaches the element/field decoders that a
// short fully arbitrary buffer cannot frame.
func VerifC18Inner() {
	kind := verifrt.Param("kind")
	n := verifrt.Param("n")
	payload := verifrt.Bytes("p", n)
	tags := [...]byte{binArrayV1, binMapV1, binSyncMapV1, binCompiledFunctionV1, binStringV1, binBytesV1, binFunctionV1, binBuiltinFunctionV1}
	verifrt.AllocBudget(1 << 16)
	verifrt.NoPanic("decode-no-panic", func() {
		switch {
		case kind < len(tags):
			var vi varintConv
			data := []byte{tags[kind]}
			data = append(data, vi.toBytes(int64(n))...)
			data = append(data, payload...)
			_, _ = DecodeObject(bytes.NewReader(data))
		case kind == len(tags):
			var fs SourceFileSet
			_ = fs.UnmarshalBinary(payload)
		case kind == len(tags)+1:
			var sf SourceFile
			_ = sf.UnmarshalBinary(payload)
		}
	})
	verifrt.Reached("end")
}

// VerifC18Fields: structure-aware inputs. Every length, size and count field
// is a varint; here two nested ones are produced from symbolic 64-bit values
// over their complete range (all ten varint length classes), which n
// arbitrary bytes cannot reach within the byte bound: an outer object of
// every tagged kind whose size field is s1, holding an inner tag, a field s2
// and k arbitrary bytes - through DecodeObject and through the type's own
// UnmarshalBinary (which nested decoding calls without the length check
// DecodeObject makes first).
func VerifC18Fields() {
	tags := [...]byte{binArrayV1, binMapV1, binSyncMapV1, binCompiledFunctionV1, binStringV1, binBytesV1, binFunctionV1, binBuiltinFunctionV1}
	kind := verifrt.Param("kind")
	s1 := verifrt.Int64("s1")
	s2 := verifrt.Int64("s2")
	// one of the two fields ranges over all of int64, the other over the
	// sizes that can be consistent with an input this short
	if verifrt.Param("wide") == 1 {
		verifrt.Assume(s2 >= -1 && s2 <= 64)
	} else {
		verifrt.Assume(s1 >= -1 && s1 <= 64)
	}
	var vi varintConv
	data := []byte{tags[kind]}
	data = append(data, vi.toBytes(s1)...)
	if inner := verifrt.Choice("inner", len(tags)+1); inner < len(tags) {
		data = append(data, tags[inner])
	}
	data = append(data, vi.toBytes(s2)...)
	data = append(data, verifrt.Bytes("t", verifrt.Param("k"))...)
	verifrt.AllocBudget(1 << 16)
	verifrt.NoPanic("decode-no-panic", func() {
		_, _ = DecodeObject(bytes.NewReader(data))
	})
	verifrt.NoPanic("unmarshal-no-panic", func() {
		switch tags[kind] {
		case binArrayV1:
			var o Array
			_ = o.UnmarshalBinary(data)
		case binMapV1:
			o := Map{}
			_ = o.UnmarshalBinary(data)
			var z Map // the zero value is a valid receiver of a BinaryUnmarshaler
			_ = z.UnmarshalBinary(data)
		case binSyncMapV1:
			var o SyncMap
			_ = o.UnmarshalBinary(data)
		case binCompiledFunctionV1:
			var o CompiledFunction
			_ = o.UnmarshalBinary(data)
		case binStringV1:
			var o String
			_ = o.UnmarshalBinary(data)
		case binBytesV1:
			var o Bytes
			_ = o.UnmarshalBinary(data)
		case binFunctionV1:
			var o Function
			_ = o.UnmarshalBinary(data)
		case binBuiltinFunctionV1:
			var o BuiltinFunction
			_ = o.UnmarshalBinary(data)
		}
	})
	// the same bytes as a source file and a file set
	verifrt.NoPanic("sourcefile-no-panic", func() {
		var sf SourceFile
		_ = sf.UnmarshalBinary(data[1:])
		var fs SourceFileSet
		_ = fs.UnmarshalBinary(data[1:])
	})
	verifrt.Reached("end")
}
