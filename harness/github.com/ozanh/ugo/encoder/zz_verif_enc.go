//go:build verif

package encoder

import (
	"bytes"
	"math"

	"github.com/ozanh/ugo"
	"github.com/ozanh/ugo/internal/verifrt"
	"github.com/ozanh/ugo/parser"
)

func verifRoundTrip(o ugo.Object) (ugo.Object, []byte, error) {
	m := marshaler(o)
	if m == nil {
		return nil, nil, nil
	}
	data, err := m.MarshalBinary()
	if err != nil {
		return nil, nil, err
	}
	got, err := DecodeObject(bytes.NewReader(data))
	return got, data, err
}

func verifIsZeroFloat(o ugo.Object) bool {
	f, ok := o.(ugo.Float)
	return ok && float64(f) == 0
}

// VerifC04Scalar: DecodeObject(MarshalBinary(x)) is identical to x (bit for
// bit) for every int, uint, char, bool, float and undefined, and encoding the
// decoded value gives the same bytes again.
func VerifC04Scalar() {
	k := verifrt.Choice("kind", 6)
	o := ugo.VerifScalar("x", k)
	verifrt.Known("C04-negzero-float", verifIsZeroFloat(o))
	var got ugo.Object
	var data []byte
	var err error
	verifrt.NoPanic("roundtrip-no-panic", func() { got, data, err = verifRoundTrip(o) })
	verifrt.Assert(err == nil, "decode-succeeds")
	if err == nil && got != nil {
		verifrt.Assert(ugo.VerifSameObject(got, o), "roundtrip-identity")
		_, data2, err2 := verifRoundTrip(got)
		verifrt.Assert(err2 == nil && bytes.Equal(data, data2), "reencode-stable")
	}
	verifrt.ClearKnown()
	verifrt.Reached("end")
}

func verifElem(name string) ugo.Object {
	k := verifrt.Choice(name+".ek", 8)
	if ek := verifrt.Param("ek"); ek >= 0 {
		verifrt.Assume(k == ek || k == (ek+3)%8)
	}
	switch k {
	case 6:
		return ugo.String(verifrt.String(name+".s", verifrt.Choice(name+".sl", 3)))
	case 7:
		return ugo.Bytes(verifrt.Bytes(name+".y", verifrt.Choice(name+".yl", 2)))
	}
	return ugo.VerifScalar(name+".e", k)
}

// VerifC04Container: strings/bytes up to maxlen symbolic bytes (any byte,
// incl. non-UTF-8), arrays/maps/sync-maps up to 2 elements of symbolic kind.
func VerifC04Container() {
	k := verifrt.Choice("kind", 6)
	var o ugo.Object
	hasFloatZero := false
	ml := verifrt.Param("maxlen")
	switch k {
	case 5:
		// key order: 2-3 distinct keys drawn from a pool (empty, one byte,
		// invalid UTF-8, one a prefix of another) in every order of insertion
		// (= order of encoding), values small ints and one empty string
		pool := [...]string{"", "a", "k\xff", "ab"}
		n := 2 + verifrt.Choice("len", 2)
		m := make(ugo.Map, n)
		for i := 0; i < n; i++ {
			key := pool[verifrt.Choice("key", len(pool))]
			_, dup := m[key]
			verifrt.Assume(!dup)
			if i == 1 {
				m[key] = ugo.String("")
			} else {
				m[key] = ugo.Int(int64(i) + verifrt.Int64("v")%2)
			}
		}
		if verifrt.Bool("sync") {
			o = &ugo.SyncMap{Value: m}
		} else {
			o = m
		}
	case 0:
		o = ugo.String(verifrt.String("s", verifrt.Choice("len", ml+1)))
	case 1:
		o = ugo.Bytes(verifrt.Bytes("y", verifrt.Choice("len", ml+1)))
	case 2:
		n := verifrt.Choice("len", 3)
		a := make(ugo.Array, n)
		for i := range a {
			a[i] = verifElem("a")
			hasFloatZero = hasFloatZero || verifIsZeroFloat(a[i])
		}
		o = a
	case 3, 4:
		n := verifrt.Choice("len", 3)
		m := make(ugo.Map, n)
		keys := [...]string{"", "k\xff"}
		for i := 0; i < n; i++ {
			e := verifElem("m")
			hasFloatZero = hasFloatZero || verifIsZeroFloat(e)
			m[keys[i]] = e
		}
		if k == 3 {
			o = m
		} else {
			o = &ugo.SyncMap{Value: m}
		}
	}
	verifrt.Known("C04-negzero-float", hasFloatZero)
	var got ugo.Object
	var data []byte
	var err error
	verifrt.NoPanic("roundtrip-no-panic", func() { got, data, err = verifRoundTrip(o) })
	verifrt.Assert(err == nil, "decode-succeeds")
	if err == nil && got != nil {
		verifrt.Assert(ugo.VerifSameObject(got, o), "roundtrip-identity")
		_, data2, err2 := verifRoundTrip(got)
		if _, isMap := o.(ugo.Map); !isMap && k != 4 && k != 5 {
			verifrt.Assert(err2 == nil && bytes.Equal(data, data2), "reencode-stable")
		} else {
			verifrt.Assert(err2 == nil && len(data) == len(data2), "reencode-stable-size")
		}
	}
	verifrt.ClearKnown()
	verifrt.Reached("end")
}

func verifSameCF(a, b *ugo.CompiledFunction) bool {
	if a.NumParams != b.NumParams || a.NumLocals != b.NumLocals || a.Variadic != b.Variadic {
		return false
	}
	if !bytes.Equal(a.Instructions, b.Instructions) {
		return false
	}
	if len(a.SourceMap) != len(b.SourceMap) {
		return false
	}
	for k, v := range a.SourceMap {
		if w, ok := b.SourceMap[k]; !ok || w != v {
			return false
		}
	}
	return true
}

// VerifC04CompiledFunction: every field the VM reads survives the round trip.
// Param "variant" selects which fields are symbolic (each symbolic varint
// forks into its ten length classes, so they are taken a few at a time).
func VerifC04CompiledFunction() {
	variant := verifrt.Param("variant")
	cf := &ugo.CompiledFunction{NumParams: 1, NumLocals: 2, Instructions: []byte{byte(ugo.OpNull), byte(ugo.OpReturn), 1}}
	switch variant {
	case 0:
		cf.NumParams = int(verifrt.Int64("np"))
		cf.NumLocals = int(verifrt.Int64("nl"))
		cf.Variadic = verifrt.Bool("variadic")
		// validity: counts are non-negative
		verifrt.Assume(cf.NumParams >= 0 && cf.NumLocals >= 0)
	case 1:
		cf.Variadic = verifrt.Bool("variadic")
		cf.Instructions = nil
		if n := verifrt.Choice("ninst", 6); n > 0 {
			cf.Instructions = verifrt.Bytes("inst", n)
		}
		if verifrt.Bool("emptyNotNil") && cf.Instructions == nil {
			cf.Instructions = []byte{}
		}
	case 2:
		cf.SourceMap = map[int]int{int(verifrt.Int64("sk0")): int(verifrt.Int64("sv0"))}
	case 3:
		cf.SourceMap = map[int]int{0: int(verifrt.Int64("sv0")), 3: int(verifrt.Int64("sv1"))}
	case 4:
		k0, k1 := int(verifrt.Int32("sk0")), int(verifrt.Int32("sk1"))
		verifrt.Assume(k0 != k1)
		cf.SourceMap = map[int]int{k0: 7, k1: 9}
	case 5:
		cf.NumParams = int(verifrt.Int64("np"))
		verifrt.Assume(cf.NumParams >= 0)
		cf.SourceMap = map[int]int{}
		cf.Free = nil
	}
	var got ugo.Object
	var err error
	verifrt.NoPanic("roundtrip-no-panic", func() { got, _, err = verifRoundTrip(cf) })
	verifrt.Assert(err == nil, "decode-succeeds")
	if err == nil && got != nil {
		g, ok := got.(*ugo.CompiledFunction)
		verifrt.Assert(ok, "decodes-to-compiled-function")
		if ok {
			verifrt.Assert(verifSameCF(g, cf), "roundtrip-identity")
		}
	}
	verifrt.Reached("end")
}

var verifLinePresets = [...][]int{{}, {3}, {2, 5}, {1, 2, 7}}

// VerifC04SourceFileSet: file table and line tables survive the round trip
// (positions are what error traces are computed from).
func VerifC04SourceFileSet() {
	fs := parser.NewFileSet()
	nf := 1 + verifrt.Choice("nfiles", 2)
	names := [...]string{"(main)", "mod"}
	for i := 0; i < nf; i++ {
		size := 9 + i
		f := fs.AddFile(names[i], -1, size)
		for _, off := range verifLinePresets[verifrt.Choice("lines", len(verifLinePresets))] {
			f.AddLine(off)
		}
	}
	data, err := (*SourceFileSet)(fs).MarshalBinary()
	verifrt.Assert(err == nil, "encode-succeeds")
	var got SourceFileSet
	verifrt.NoPanic("decode-no-panic", func() { err = got.UnmarshalBinary(data) })
	verifrt.Assert(err == nil, "decode-succeeds")
	if err == nil {
		g := (*parser.SourceFileSet)(&got)
		verifrt.Assert(g.Base == fs.Base && len(g.Files) == len(fs.Files), "fileset-shape")
		if len(g.Files) == len(fs.Files) {
			for i := range fs.Files {
				a, b := fs.Files[i], g.Files[i]
				same := a.Name == b.Name && a.Base == b.Base && a.Size == b.Size && len(a.Lines) == len(b.Lines)
				if same {
					for j := range a.Lines {
						same = same && a.Lines[j] == b.Lines[j]
					}
				}
				verifrt.Assert(same, "file-identity")
			}
			// every position resolves to the same file/line/column
			p := parser.Pos(verifrt.Int64("pos"))
			verifrt.Assume(int(p) >= 0 && int(p) <= fs.Base)
			pa, pb := fs.Position(p), g.Position(p)
			verifrt.Assert(pa.Line == pb.Line && pa.Column == pb.Column && pa.Offset == pb.Offset, "position-identity")
		}
	}
	verifrt.Reached("end")
}

// ---------------------------------------------------------------------------
// C18: arbitrary buffers

// VerifC18Object: DecodeObject on n arbitrary bytes never panics.
func VerifC18Object() {
	n := verifrt.Param("n")
	data := verifrt.Bytes("d", n)
	verifrt.AllocBudget(1 << 16)
	if t := verifrt.Param("tag"); t >= 0 {
		verifrt.Assume(int(data[0]) == t)
	}
	verifrt.Known("C18-gob-branch", data[0] == binUnkownType)
	var sizeByte byte
	if n > 1 {
		sizeByte = data[1]
	}
	numeric := data[0] == binIntV1 || data[0] == binUintV1 || data[0] == binFloatV1 || data[0] == binCharV1
	verifrt.Known("C18-scalar-size-byte-wrap", numeric && sizeByte >= 254)
	verifrt.NoPanic("decode-no-panic", func() {
		_, _ = DecodeObject(bytes.NewReader(data))
	})
	verifrt.ClearKnown()
	verifrt.Reached("end")
}

// VerifC18Bytecode: Bytecode.UnmarshalBinary on header + n arbitrary bytes.
func VerifC18Bytecode() {
	n := verifrt.Param("n")
	ver := byte(verifrt.Param("version"))
	data := []byte{0x00, 0x75, 0x47, 0x4F, 0, ver}
	body := verifrt.Bytes("d", n)
	data = append(data, body...)
	verifrt.AllocBudget(1 << 16)
	if f := verifrt.Param("field"); f >= 0 {
		verifrt.Assume(int(body[0]) == f)
	}
	verifrt.NoPanic("decode-no-panic", func() {
		var bc Bytecode
		_ = bc.UnmarshalBinary(data)
	})
	verifrt.Reached("end")
}

var _ = math.Float64bits
