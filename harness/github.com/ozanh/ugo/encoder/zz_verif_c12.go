//go:build verif

package encoder

import (
	"github.com/ozanh/ugo"
	"github.com/ozanh/ugo/internal/verifrt"
)

// Source modules log their body execution through the builtin module "rec".
var verifC12Sources = map[string]string{
	"a":    `rec := import("rec"); rec.log("a"); n := 0; return {inc: func() { n++; return n }, get: func() { return n }}`,
	"b":    `rec := import("rec"); rec.log("b"); a := import("a"); a.inc(); return {a: a, name: "b"}`,
	"c":    `rec := import("rec"); rec.log("c"); a := import("a"); a.inc(); return {a: a, name: "c"}`,
	"d":    `rec := import("rec"); rec.log("d"); b := import("b"); c := import("c"); return {b: b, c: c, same: b.a == c.a}`,
	"priv": `secret := 41; return {get: func() { secret++; return secret }}`,
	"cyc1": `return import("cyc2")`,
	"cyc2": `return import("cyc3")`,
	"cyc3": `return import("cyc1")`,
	"self": `return import("self")`,
}

var verifC12Progs = [...]string{
	// 0: repeated imports see one object
	`param p; rec := import("rec"); x := import("a"); y := import("a"); x.inc(); return [x == y, y.get(), rec.get()]`,
	// 1: diamond
	`param p; rec := import("rec"); d := import("d"); a := import("a"); return [d.same, d.b.a == a, a.get(), rec.get()]`,
	// 2: chain + conditional import
	`param p; rec := import("rec"); r := 0; if p > 0 { r = import("b").a.inc() } else { r = import("c").a.inc() }; return [r, import("a").get(), rec.get()]`,
	// 3: imports inside functions and loops
	`param p; rec := import("rec"); f := func() { return import("a").inc() }; s := 0; for i := 0; i < 3; i++ { s += f() }; return [s, import("a").get(), rec.get()]`,
	// 4: first import inside a callback run by a child VM, then in main and in another callback
	`param p; rec := import("rec"); r1 := callback(func() { return import("a").inc() }); a := import("a"); r2 := callback(func(x) { return import("a").inc() + x }, p); return [r1, a.inc(), r2, a.get(), rec.get()]`,
	// 5: builtin module values are private per run and mutable by the script
	`param p; rec := import("rec"); cfg := import("cfg"); cfg.n = p; cfg.list[0] = p; c2 := import("cfg"); return [c2.n, c2.list, cfg == c2, rec.get()]`,
	// 6: module variables reachable only through the returned value
	`param p; m := import("priv"); return [m.get(), m.get(), m.secret, import("priv").get()]`,
	// 7: import in a module imported inside a callback inside a loop
	`param p; rec := import("rec"); r := []; for i := 0; i < 2; i++ { r = append(r, callback(func() { return import("d").b.a.get() })) }; return [r, import("a").get(), rec.get()]`,
}

var verifC12Bad = [...]string{
	`return import("cyc1")`,
	`return import("self")`,
	`return import("nosuch")`,
	`f := func() { return import("cyc2") }; return 1`,
	`param p; if p { import("nosuch") }; return 1`,
	`param p; for i := 0; i < p; i++ { callback(func() { return import("cyc3") }) }; return 1`,
}

type verifRecorder struct{ log ugo.Array }

func verifC12Modules(rec *verifRecorder) *ugo.ModuleMap {
	mm := ugo.NewModuleMap()
	for name, src := range verifC12Sources {
		mm.AddSourceModule(name, []byte(src))
	}
	mm.AddBuiltinModule("rec", map[string]ugo.Object{
		"log": &ugo.Function{Name: "log", Value: func(args ...ugo.Object) (ugo.Object, error) {
			rec.log = append(rec.log, args...)
			return ugo.Undefined, nil
		}},
		"get": &ugo.Function{Name: "get", Value: func(args ...ugo.Object) (ugo.Object, error) {
			return append(ugo.Array{}, rec.log...), nil
		}},
	})
	mm.AddBuiltinModule("cfg", map[string]ugo.Object{"n": ugo.Int(0), "list": ugo.Array{ugo.Int(1)}})
	return mm
}

// VerifC12Imports: module bodies run at most once per run, every import of a
// name yields the same object, builtin modules are private per run - compared
// with the reference interpreter's module cache; optimizer on/off and after an
// encode/decode round trip.
func VerifC12Imports() {
	src := "global callback; " + verifC12Progs[verifrt.Param("prog")]
	p := ugo.Int(verifrt.Int64("p"))
	var refRec verifRecorder
	want, wn, wm, failed, unsup := ugo.VerifRefRun(src, verifC12Modules(&refRec), nil, "callback", p)
	verifrt.AssertMsg(unsup == "", "reference-interpreter-supports-program", unsup)
	if unsup != "" {
		return
	}
	var rec verifRecorder
	mm := verifC12Modules(&rec)
	bc, err := ugo.Compile([]byte(src), ugo.CompilerOptions{ModuleMap: mm, NoOptimize: verifrt.Param("opt") == 0})
	verifrt.Assert(err == nil, "compiles")
	if err != nil {
		return
	}
	run := func(b *ugo.Bytecode) (ugo.Object, error) {
		rec.log = nil
		return ugo.NewVM(b).SetRecover(true).Run(ugo.Map{"callback": ugo.VerifInvokerCallback("callback")}, p)
	}
	check := func(v ugo.Object, e error, id string) {
		if failed {
			n, m := ugo.VerifErrNameMsg(e)
			verifrt.Assert(e != nil && n == wn && m == wm, id+"-same-error")
		} else {
			verifrt.Assert(e == nil && ugo.VerifSameObjectRI(v, want), id)
		}
	}
	v, e := run(bc)
	check(v, e, "module-semantics")
	// a second run of the same Bytecode loads the modules again, privately
	v, e = run(bc)
	check(v, e, "module-semantics-second-run")
	dec, _, derr := verifEncDec(bc, mm)
	verifrt.Assert(derr == nil, "decodes")
	if derr == nil {
		v, e = run(dec)
		check(v, e, "module-semantics-after-decode")
	}
	verifrt.Reached("end")
}

// VerifC12Bad: import cycles of length 1..3 and unknown modules are compile
// errors, wherever the import expression stands.
func VerifC12Bad() {
	src := verifC12Bad[verifrt.Param("prog")]
	var rec verifRecorder
	var err error
	verifrt.NoPanic("compile-no-panic", func() {
		_, err = ugo.Compile([]byte(src), ugo.CompilerOptions{ModuleMap: verifC12Modules(&rec), NoOptimize: verifrt.Param("opt") == 0})
	})
	verifrt.Assert(err != nil, "cycle-or-unknown-module-is-a-compile-error")
	verifrt.Reached("end")
}
