//go:build verif

package encoder

import (
	"bytes"
	"strconv"
	"strings"

	"github.com/ozanh/ugo"
	"github.com/ozanh/ugo/encoder/opv1"
	"github.com/ozanh/ugo/internal/verifrt"
)

func verifIsJump(op byte) bool {
	return op == opv1.OpJump || op == opv1.OpJumpFalsy || op == opv1.OpAndJump || op == opv1.OpOrJump
}

func verifWidth(ops []int) int {
	w := 0
	for _, o := range ops {
		w += o
	}
	return w
}

// verifDownConvert rewrites a version-2 function into the version-1 layout
// (2-byte jump/try operands), relocating targets and source-map keys: the
// inverse of what the decoder has to do (refreloc).
func verifDownConvert(cf *ugo.CompiledFunction) (*ugo.CompiledFunction, bool) {
	ins := cf.Instructions
	newPos := map[int]int{}
	n := 0
	for i := 0; i < len(ins); {
		newPos[i] = n
		op := ins[i]
		n += 1 + verifWidth(opv1.OpcodeOperands[op])
		i += 1 + verifWidth(ugo.OpcodeOperands[op])
	}
	newPos[len(ins)] = n
	var out []byte
	for i := 0; i < len(ins); {
		op := ins[i]
		w2 := verifWidth(ugo.OpcodeOperands[op])
		out = append(out, op)
		switch {
		case verifIsJump(op):
			t := int(ins[i+1])<<24 | int(ins[i+2])<<16 | int(ins[i+3])<<8 | int(ins[i+4])
			nt, ok := newPos[t]
			if !ok || nt > 0xffff {
				return nil, false
			}
			out = append(out, byte(nt>>8), byte(nt))
		case op == opv1.OpSetupTry:
			c := int(ins[i+1])<<24 | int(ins[i+2])<<16 | int(ins[i+3])<<8 | int(ins[i+4])
			f := int(ins[i+5])<<24 | int(ins[i+6])<<16 | int(ins[i+7])<<8 | int(ins[i+8])
			nc, ok1 := newPos[c]
			nf, ok2 := newPos[f]
			if c == 0 {
				nc, ok1 = 0, true
			}
			if f == 0 {
				nf, ok2 = 0, true
			}
			if !ok1 || !ok2 {
				return nil, false
			}
			out = append(out, byte(nc>>8), byte(nc), byte(nf>>8), byte(nf))
		default:
			out = append(out, ins[i+1:i+1+w2]...)
		}
		i += 1 + w2
	}
	v1 := &ugo.CompiledFunction{NumParams: cf.NumParams, NumLocals: cf.NumLocals, Variadic: cf.Variadic, Instructions: out}
	if cf.SourceMap != nil {
		v1.SourceMap = map[int]int{}
		for k, v := range cf.SourceMap {
			nk, ok := newPos[k]
			if !ok {
				return nil, false
			}
			v1.SourceMap[nk] = v
		}
	}
	return v1, true
}

var verifC11Progs = [...]string{
	`param a; if a > 1 { return "big" } else if a == 1 { return "one" }; return "small"`,
	`param a; s := 0; for i := 0; i < 3; i++ { if i == a { continue }; s += i }; return s`,
	`param a; return [a && 1, a || 2, a ? 3 : 4, (a && 0) || (a || 5)]`,
	`param a; r := []; try { if a { throw "x" }; r = append(r, 1) } catch e { r = append(r, 2) } finally { r = append(r, 3) }; return r`,
	`param a; f := func(n) { if n > 0 { return n + 1 }; return 0 }; g := func(x) { for i := 0; i < 2; i++ { x += f(i) }; return x }; return g(a)`,
	`param a; for k, v in [1, 2] { if v == a { break } }; x := a ? 1 : 2; try { x = x / a } catch e { return string(e) }; return x`,
	`param a
f := func() {
	if a { return 1 }
	return 10 / a
}
return f()`,
}

// VerifC11Prog: a real compiled program, stored in the version-1 layout and
// decoded through the real version-1 path, is instruction-for-instruction the
// version-2 program again (so it reaches the same instructions and reports
// the same source lines), and runs to the same outcome for all inputs.
func VerifC11Prog() {
	verifC11Check(verifC11Progs[verifrt.Param("prog")], nil)
}

// VerifC11Corpus: the same for every program of the shared corpus (the C02
// family and try/catch/finally shapes: several functions with jumps, loops
// whose heads precede the first jump, nested handlers).
func VerifC11Corpus() {
	verifrt.Assert(ugo.VerifCorpusLen() == verifrt.Param("len"), "job-table-covers-the-corpus")
	src, args := ugo.VerifCorpus(verifrt.Param("prog"))
	verifC11Check(src, args)
}

func verifC11Check(src string, args []ugo.Object) {
	bc, err := ugo.Compile([]byte(src), ugo.CompilerOptions{NoOptimize: verifrt.Param("opt") == 0})
	verifrt.AssertMsg(err == nil, "compiles", src)
	if err != nil {
		return
	}
	v1 := &ugo.Bytecode{FileSet: bc.FileSet, NumModules: bc.NumModules}
	ok := true
	v1.Main, ok = verifDownConvert(bc.Main)
	verifrt.Assume(ok)
	for _, c := range bc.Constants {
		if cf, isCF := c.(*ugo.CompiledFunction); isCF {
			d, ok := verifDownConvert(cf)
			verifrt.Assume(ok)
			v1.Constants = append(v1.Constants, d)
		} else {
			v1.Constants = append(v1.Constants, c)
		}
	}
	data, err := (*Bytecode)(v1).MarshalBinary()
	verifrt.Assert(err == nil, "encodes")
	data[4], data[5] = 0, 1 // version 1 header
	var got Bytecode
	verifrt.Known("C11-v1-jump-targets-not-relocated", true)
	verifrt.NoPanic("decode-no-panic", func() { err = got.UnmarshalBinary(data) })
	verifrt.Assert(err == nil, "v1-decodes")
	if err == nil {
		same := verifSameCF(got.Main, bc.Main) && len(got.Constants) == len(bc.Constants)
		if same {
			for i, c := range bc.Constants {
				if cf, isCF := c.(*ugo.CompiledFunction); isCF {
					g, ok := got.Constants[i].(*ugo.CompiledFunction)
					same = same && ok && verifSameCF(g, cf)
				}
			}
		}
		verifrt.Assert(same, "v1-decodes-to-the-v2-program")
		if !same {
			// a mis-converted program may not terminate: do not run it
			verifrt.ClearKnown()
			verifrt.Reached("end")
			return
		}
		if args == nil {
			args = []ugo.Object{ugo.Int(verifrt.Int64("a"))}
		}
		var v1v, v2v ugo.Object
		var e1, e2 error
		var o1, o2 string
		verifrt.NoPanic("run-no-panic", func() {
			v2v, e2, o2 = ugo.VerifRunBC(bc, args...)
			v1v, e1, o1 = ugo.VerifRunBC((*ugo.Bytecode)(&got), args...)
		})
		verifrt.Assert(ugo.VerifSameError(e1, e2) && o1 == o2 && (e1 != nil || ugo.VerifSameObject(v1v, v2v)), "v1-runs-like-v2")
		if e1 != nil && e2 != nil {
			verifrt.Assert(verifSameTrace(e1, e2), "v1-error-lines")
		}
	}
	verifrt.ClearKnown()
	verifrt.Reached("end")
}

func verifSameTrace(a, b error) bool {
	ra, ok1 := a.(*ugo.RuntimeError)
	rb, ok2 := b.(*ugo.RuntimeError)
	if !ok1 || !ok2 {
		return ok1 == ok2
	}
	ta, tb := ra.StackTrace(), rb.StackTrace()
	if len(ta) != len(tb) {
		return false
	}
	for i := range ta {
		if ta[i].Line != tb[i].Line {
			return false
		}
	}
	return true
}

// VerifC11Kernel: a version-1 function of n instructions with symbolic opcode
// classes, symbolic operand bytes and jump targets at arbitrary instruction
// starts is converted so that every instruction keeps its operands, every
// target t becomes new(t), and every source-map key k becomes new(k).
func VerifC11Kernel() {
	n := verifrt.Param("n")
	type ins struct {
		class int
		op    byte
		a, b  int // targets as instruction indexes (jump / try)
		raw   []byte
	}
	prog := make([]ins, n)
	jumpOps := [...]byte{opv1.OpJump, opv1.OpJumpFalsy, opv1.OpAndJump, opv1.OpOrJump}
	for i := range prog {
		c := verifrt.Choice("class", 5)
		if i == 0 {
			if c0 := verifrt.Param("class0"); c0 >= 0 {
				verifrt.Assume(c == c0)
			}
		}
		prog[i].class = c
		switch c {
		case 0:
			prog[i].op = opv1.OpPop
		case 1:
			prog[i].op = opv1.OpGetLocal
			prog[i].raw = verifrt.Bytes("o1", 1)
		case 2:
			prog[i].op = opv1.OpConstant
			prog[i].raw = verifrt.Bytes("o2", 2)
		case 3:
			prog[i].op = jumpOps[(verifrt.Choice("jop", 2)*2+i)%4]
			prog[i].a = verifrt.Choice("target", n+1)
		case 4:
			prog[i].op = opv1.OpSetupTry
			prog[i].a = verifrt.Choice("catch", n+1)
			prog[i].b = verifrt.Choice("finally", n+1)
		}
	}
	// layout
	oldPos := make([]int, n+1)
	newPos := make([]int, n+1)
	for i, p := range prog {
		w1 := verifWidth(opv1.OpcodeOperands[p.op])
		w2 := verifWidth(ugo.OpcodeOperands[p.op])
		oldPos[i+1] = oldPos[i] + 1 + w1
		newPos[i+1] = newPos[i] + 1 + w2
	}
	var v1, want []byte
	be := func(v, w int) []byte {
		if w == 2 {
			return []byte{byte(v >> 8), byte(v)}
		}
		return []byte{byte(v >> 24), byte(v >> 16), byte(v >> 8), byte(v)}
	}
	for _, p := range prog {
		v1 = append(v1, p.op)
		want = append(want, p.op)
		switch p.class {
		case 1, 2:
			v1 = append(v1, p.raw...)
			want = append(want, p.raw...)
		case 3:
			v1 = append(v1, be(oldPos[p.a], 2)...)
			want = append(want, be(newPos[p.a], 4)...)
		case 4:
			v1 = append(v1, be(oldPos[p.a], 2)...)
			v1 = append(v1, be(oldPos[p.b], 2)...)
			want = append(want, be(newPos[p.a], 4)...)
			want = append(want, be(newPos[p.b], 4)...)
		}
	}
	sk := verifrt.Choice("srckey", n)
	cf := &ugo.CompiledFunction{Instructions: v1, SourceMap: map[int]int{oldPos[sk]: 77}}
	hasJump := false
	for _, p := range prog {
		hasJump = hasJump || p.class >= 3
	}
	// The function goes through the public version-1 decoding path, alone as
	// the main function or as a constant next to a main function (and an
	// earlier constant) that have jumps of their own, so that whatever the
	// converter keeps between functions is exercised.
	base, cerr := ugo.Compile([]byte(`return 1`), ugo.CompilerOptions{})
	verifrt.Assert(cerr == nil, "compiles")
	if cerr != nil {
		return
	}
	other := func() *ugo.CompiledFunction {
		// v1: JUMP 4; POP; POP; POP; POP   (target = third instruction)
		return &ugo.CompiledFunction{Instructions: []byte{opv1.OpJump, 0, 4, opv1.OpPop, opv1.OpPop, opv1.OpPop, opv1.OpPop},
			SourceMap: map[int]int{4: 5}}
	}
	otherWant := []byte{opv1.OpJump, 0, 0, 0, 6, opv1.OpPop, opv1.OpPop, opv1.OpPop, opv1.OpPop}
	v1bc := &ugo.Bytecode{FileSet: base.FileSet}
	ctx := verifrt.Choice("ctx", 3)
	if sel := verifrt.Param("ctxsel"); sel > 0 {
		verifrt.Assume(ctx == sel-1) // thorough tier: one job per context
	}
	switch ctx {
	case 0:
		v1bc.Main = cf
	case 1:
		v1bc.Main = other()
		v1bc.Constants = []ugo.Object{cf}
	default:
		v1bc.Main = other()
		v1bc.Constants = []ugo.Object{other(), ugo.Int(7), cf}
	}
	data, err := (*Bytecode)(v1bc).MarshalBinary()
	verifrt.Assert(err == nil, "encodes")
	if err != nil {
		return
	}
	data[4], data[5] = 0, 1 // version 1 header
	var got Bytecode
	verifrt.Known("C11-v1-jump-targets-not-relocated", hasJump)
	verifrt.NoPanic("conv-no-panic", func() { err = got.UnmarshalBinary(data) })
	verifrt.Assert(err == nil, "conv-succeeds")
	if err == nil {
		var g *ugo.CompiledFunction
		if ctx == 0 {
			g = got.Main
		} else if len(got.Constants) == len(v1bc.Constants) {
			g, _ = got.Constants[len(got.Constants)-1].(*ugo.CompiledFunction)
			verifrt.Assert(got.Main != nil && bytes.Equal(got.Main.Instructions, otherWant) && got.Main.SourceMap[6] == 5, "neighbour-function-relocated")
		}
		verifrt.Assert(g != nil, "function-decoded")
		if g != nil {
			verifrt.Assert(bytes.Equal(g.Instructions, want), "targets-relocated-operands-kept")
			v, ok := g.SourceMap[newPos[sk]]
			verifrt.Assert(ok && v == 77 && len(g.SourceMap) == 1, "source-map-relocated")
		}
	}
	verifrt.ClearKnown()
	verifrt.Reached("end")
}

// VerifC11Big: one function with n if-statements and a try statement at its
// end, sized so that its v1 code is below 64 KiB while the widened v2 code is
// above: relocated jump and try targets beyond 65535. Decoded v1 == the v2
// program, instruction for instruction, and both run alike on two inputs.
func VerifC11Big() {
	n := verifrt.Param("n")
	var sb strings.Builder
	sb.WriteString("param a\nr := 0\n")
	for i := 0; i < n; i++ {
		sb.WriteString("if a == " + strconv.Itoa(i) + " { r += 1 }\n")
	}
	sb.WriteString("try { r += 10 / a } catch e { r = -1 } finally { r += 100 }\nreturn r")
	bc, err := ugo.Compile([]byte(sb.String()), ugo.CompilerOptions{NoOptimize: true})
	verifrt.Assert(err == nil, "compiles")
	if err != nil {
		return
	}
	verifrt.Note("v2 main size " + strconv.Itoa(len(bc.Main.Instructions)/1024) + " KiB")
	v1 := &ugo.Bytecode{FileSet: bc.FileSet, NumModules: bc.NumModules, Constants: bc.Constants}
	var ok bool
	v1.Main, ok = verifDownConvert(bc.Main)
	verifrt.Assert(ok, "v1-form-exists")
	if !ok {
		return
	}
	verifrt.Note("v1 main size " + strconv.Itoa(len(v1.Main.Instructions)/1024) + " KiB")
	data, err := (*Bytecode)(v1).MarshalBinary()
	verifrt.Assert(err == nil, "encodes")
	data[4], data[5] = 0, 1
	var got Bytecode
	verifrt.NoPanic("decode-no-panic", func() { err = got.UnmarshalBinary(data) })
	verifrt.Assert(err == nil, "v1-decodes")
	if err == nil {
		same := verifSameCF(got.Main, bc.Main)
		verifrt.Assert(same, "v1-decodes-to-the-v2-program")
		if same {
			for _, a := range []int64{0, 2} {
				v2v, e2, _ := ugo.VerifRunBC(bc, ugo.Int(a))
				v1v, e1, _ := ugo.VerifRunBC((*ugo.Bytecode)(&got), ugo.Int(a))
				verifrt.Assert(ugo.VerifSameError(e1, e2) && (e1 != nil || ugo.VerifSameObject(v1v, v2v)), "v1-runs-like-v2")
			}
		}
	}
	verifrt.Reached("end")
}
