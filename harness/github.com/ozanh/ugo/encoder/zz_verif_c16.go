//go:build verif

package encoder

import (
	"github.com/ozanh/ugo"
	"github.com/ozanh/ugo/internal/verifrt"
)

var verifC16ModProgs = [...]string{
	// error raised inside a function of an imported source module
	`param a
m := import("lib")
f := func(x) {
	return m.div(x)
}
return f(a)`,
	// error raised while the module body itself runs, and in a module imported by a module
	`param a
if a == 0 {
	return import("boom")
}
m := import("lib2")
return m.run(a)`,
}

func verifC16Modules() *ugo.ModuleMap {
	mm := ugo.NewModuleMap()
	mm.AddSourceModule("lib", []byte(`helper := func(x) {
	return 100 / x
}
return {
	div: func(x) {
		return helper(x)
	},
}`))
	mm.AddSourceModule("boom", []byte(`x := 1
y := [x][3]
return y`))
	mm.AddSourceModule("lib2", []byte(`lib := import("lib")
return {run: func(x) {
	if x == 1 {
		throw "lib2"
	}
	return lib.div(x - 2)
}}`))
	return mm
}

func verifTraceOf(err error) (files []string, lines []int, offsetsOK bool) {
	re, ok := err.(*ugo.RuntimeError)
	if !ok {
		return nil, nil, false
	}
	offsetsOK = true
	for _, p := range re.StackTrace() {
		files = append(files, p.Filename)
		lines = append(lines, p.Line)
		if p.Offset < 0 || p.Line < 1 {
			offsetsOK = false
		}
	}
	return
}

func verifSameTraceFL(f1 []string, l1 []int, f2 []string, l2 []int) bool {
	if len(l1) != len(l2) || len(f1) != len(f2) || len(f1) != len(l1) {
		return false
	}
	for i := range l1 {
		if l1[i] != l2[i] || f1[i] != f2[i] {
			return false
		}
	}
	return true
}

// VerifC16Encoded: the trace (file and line of every frame) of an uncaught
// error is what the script text says, also after an encode/decode round trip
// and for errors inside imported source modules.
func VerifC16Encoded() {
	p := verifrt.Param("prog")
	var src string
	mm := verifC16Modules()
	if p < ugo.VerifC16NumProgs {
		src = ugo.VerifC16Prog(p)
	} else {
		src = verifC16ModProgs[p-ugo.VerifC16NumProgs]
	}
	a := verifrt.Int64("a")
	verifrt.Assume(a >= -1 && a <= 4)
	wantF, wantL, failed, unsup := ugo.VerifRefTrace(src, mm, ugo.Int(a))
	verifrt.AssertMsg(unsup == "", "reference-interpreter-supports-program", unsup)
	if unsup != "" {
		return
	}
	bc, err := ugo.Compile([]byte(src), ugo.CompilerOptions{ModuleMap: mm, NoOptimize: verifrt.Param("opt") == 0})
	verifrt.Assert(err == nil, "compiles")
	if err != nil {
		return
	}
	dec, _, derr := verifEncDec(bc, mm)
	verifrt.Assert(derr == nil, "decodes")
	for i, b := range []*ugo.Bytecode{bc, dec} {
		if b == nil {
			continue
		}
		_, rerr, _ := ugo.VerifRunBC(b, ugo.Int(a))
		verifrt.Assert((rerr != nil) == failed, "fails-iff-reference-fails")
		if rerr != nil && failed {
			gf, gl, ok := verifTraceOf(rerr)
			verifrt.Assert(ok, "positions-valid")
			if i == 0 {
				verifrt.AssertMsg(verifSameTraceFL(gf, gl, wantF, wantL), "trace-files-and-lines", src)
			} else {
				verifrt.AssertMsg(verifSameTraceFL(gf, gl, wantF, wantL), "trace-files-and-lines-after-decode", src)
			}
		}
	}
	verifrt.Reached("end")
}
