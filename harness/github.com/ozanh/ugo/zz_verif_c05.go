//go:build verif

package ugo

import (
	"bytes"
	"context"
	"strconv"
	"strings"

	"github.com/ozanh/ugo/internal/verifrt"
)

const verifNumOpcodes = int(OpCallName) + 1

// VerifC05Instr: MakeInstruction on a symbolic opcode and symbolic operand
// values either fails with an error or produces an instruction of the table's
// length from which ReadOperands reads the operands back; never a panic.
func VerifC05Instr() {
	op := Opcode(verifrt.Choice("op", verifNumOpcodes))
	nops := len(OpcodeOperands[op])
	n := verifrt.Choice("nargs", 4)
	args := make([]int, n)
	names := [...]string{"o0", "o1", "o2"}
	for i := range args {
		args[i] = int(verifrt.Int64(names[i]))
	}
	var inst []byte
	var err error
	verifrt.NoPanic("make-instruction-no-panic", func() { inst, err = MakeInstruction(nil, op, args...) })
	if n != nops {
		verifrt.Assert(err != nil, "wrong-operand-count-is-an-error")
	}
	if err == nil {
		width := 0
		for _, w := range OpcodeOperands[op] {
			width += w
		}
		verifrt.Assert(len(inst) == 1+width && inst[0] == op, "instruction-length-matches-table")
		got, off := ReadOperands(OpcodeOperands[op], inst[1:], nil)
		verifrt.Assert(off == width && len(got) == n, "operands-read-back-shape")
		for i := range got {
			verifrt.Assert(got[i] == args[i], "operands-read-back")
		}
		verifrt.Reached("encoded")
	}
	verifrt.Reached("end")
}

// verifWellFormed: every jump, constant, local, builtin and module index of
// the Bytecode is in range.
func verifWellFormed(bc *Bytecode) bool {
	ok := true
	check := func(cf *CompiledFunction) {
		starts := map[int]bool{}
		IterateInstructions(cf.Instructions, func(pos int, _ Opcode, _ []int, _ int) bool {
			starts[pos] = true
			return true
		})
		starts[len(cf.Instructions)] = true
		IterateInstructions(cf.Instructions, func(pos int, op Opcode, operands []int, _ int) bool {
			switch op {
			case OpJump, OpJumpFalsy, OpAndJump, OpOrJump:
				ok = ok && starts[operands[0]]
			case OpSetupTry:
				ok = ok && (operands[0] == 0 || starts[operands[0]]) && (operands[1] == 0 || starts[operands[1]])
			case OpConstant, OpGetGlobal, OpSetGlobal:
				ok = ok && operands[0] < len(bc.Constants)
			case OpClosure:
				ok = ok && operands[0] < len(bc.Constants)
				if operands[0] < len(bc.Constants) {
					_, isCF := bc.Constants[operands[0]].(*CompiledFunction)
					ok = ok && isCF
				}
			case OpGetLocal, OpSetLocal, OpDefineLocal, OpGetLocalPtr:
				ok = ok && operands[0] < cf.NumLocals
			case OpGetBuiltin:
				ok = ok && operands[0] < len(BuiltinObjects) && BuiltinObjects[operands[0]] != nil
			case OpLoadModule:
				ok = ok && operands[0] < len(bc.Constants) && operands[1] < bc.NumModules
			case OpStoreModule:
				ok = ok && operands[0] < bc.NumModules
			}
			return true
		})
		ok = ok && cf.NumParams <= cf.NumLocals && cf.NumLocals <= 256
	}
	check(bc.Main)
	for _, c := range bc.Constants {
		if cf, isCF := c.(*CompiledFunction); isCF {
			check(cf)
		}
	}
	return ok
}

func verifSeq(n int, f func(i int) string, sep string) string {
	var sb strings.Builder
	for i := 0; i < n; i++ {
		if i > 0 {
			sb.WriteString(sep)
		}
		sb.WriteString(f(i))
	}
	return sb.String()
}

// VerifC05Capacity: scripts at and just beyond the operand-width limits.
// kind: 0 call arguments, 1 locals in main, 2 locals in a function, 3 array
// literal elements, 4 map literal elements, 5 distinct constants, 6 function
// parameters, 7 captured variables, 8 nesting depth (with tracing on), 9-12
// the limits inside expressions the optimizer evaluates at compile time.
func VerifC05Capacity() {
	kind := verifrt.Param("kind")
	n := verifrt.Param("n")
	num := func(i int) string { return strconv.Itoa(i) }
	var src string
	opts := CompilerOptions{NoOptimize: verifrt.Param("opt") == 0}
	switch kind {
	case 0:
		src = "f := func(...a) { return len(a) }\nreturn f(" + verifSeq(n, num, ", ") + ")"
	case 1:
		src = verifSeq(n, func(i int) string { return "v" + num(i) + " := " + num(i) }, "\n") + "\nreturn v0"
	case 2:
		src = "f := func() {\n" + verifSeq(n, func(i int) string { return "v" + num(i) + " := " + num(i) }, "\n") + "\nreturn v0\n}\nreturn f()"
	case 3:
		src = "x := 1\nreturn len([" + verifSeq(n, func(i int) string { return "x" }, ", ") + "])"
	case 4:
		src = "x := 1\nreturn len({" + verifSeq(n, func(i int) string { return "k" + num(i) + ": x" }, ", ") + "})"
	case 5:
		src = "x := 0\n" + verifSeq(n, func(i int) string { return "x = " + num(i+1000000) }, "\n") + "\nreturn x"
	case 6:
		src = "f := func(" + verifSeq(n, func(i int) string { return "p" + num(i) }, ", ") + ") { return p0 }\nreturn 1"
	case 7:
		src = verifSeq(n, func(i int) string { return "v" + num(i) + " := " + num(i) }, "\n") + "\nf := func() { return " + verifSeq(n, func(i int) string { return "v" + num(i) }, " + ") + " }\nreturn f()"
	// 9-12: the same limits inside expressions that the optimizer evaluates at
	// compile time (constant arguments of builtins, constant container literals,
	// function literals called on the spot) - a second compiler runs there
	case 9:
		src = "return string(" + verifSeq(n, num, ", ") + ")"
	case 10:
		src = "return len([" + verifSeq(n, num, ", ") + "])"
	case 11:
		src = "return len({" + verifSeq(n, func(i int) string { return "k" + num(i) + ": " + num(i) }, ", ") + "})"
	case 12:
		src = "return func() {\n" + verifSeq(n, func(i int) string { return "v" + num(i) + " := " + num(i) }, "\n") + "\nreturn v0\n}() + int(\"1\")"
	case 8:
		var w bytes.Buffer
		opts.Trace = &w
		opts.TraceCompiler = true
		opts.TraceOptimizer = true
		opts.TraceParser = verifrt.Param("opt") == 1
		src = "return " + strings.Repeat("(", n) + "1" + strings.Repeat(")", n)
	}
	var bc *Bytecode
	var err error
	verifrt.Known("C05-emit-panics-at-operand-limit", kind != 8)
	verifrt.NoPanic("compile-no-panic", func() { bc, err = Compile([]byte(src), opts) })
	verifrt.ClearKnown()
	verifrt.Assert((bc == nil) != (err == nil), "bytecode-or-error")
	if err == nil && bc != nil {
		verifrt.Assert(verifWellFormed(bc), "bytecode-well-formed")
		var v Object
		var rerr error
		verifrt.NoPanic("run-no-panic", func() { v, rerr = NewVM(bc).SetRecover(true).Run(nil) })
		verifrt.Assert(v != nil || rerr != nil, "runs")
		verifrt.Reached("compiled")
	}
	verifrt.Reached("end")
}

var verifC05Seeds = [...]string{
	`a := 1; b := "x" + a`,
	`f := func(x, ...y) { return x }`,
	`for i := 0; i < 3; i++ { }`,
	`try { throw 1 } catch e { } finally { }`,
	`const (a = iota; b); var (c, d)`,
	`m := {a: [1, 2.5, 'c', 3u]}; m.a[0]++`,
	`x := {w: [1, 2, 3]}; return x ? 1 : x.w[1:2]`,
	`param (p, ...q); global g; import("m")`,
	"s := `raw` + \"e\\n\"; /* c */ // d",
	`if a := 1; a { } else if !a { } else { }`,
	`for k, v in [1, 2] { break; continue }`,
	`f := func(...z) { return z }; x, y := f(...[1]); x &^= 1 << 2`,
	`m := import("m"); k := m + 1; return [m, k]`,
}

// VerifC05Holes: a seed script with "width" adjacent bytes at position "pos"
// replaced by (ins=0) or preceded by (ins=1) arbitrary bytes, every combination of compiler options: Compile
// (and Eval, and module compilation) return Bytecode or an error; success
// means well-formed Bytecode.
func VerifC05Holes() {
	seed := verifC05Seeds[verifrt.Param("seed")]
	pos := verifrt.Param("pos")
	w := verifrt.Param("width")
	hole := verifrt.Bytes("h", w)
	var src []byte
	if verifrt.Param("ins") == 1 {
		// the arbitrary bytes are inserted before position pos
		verifrt.Assume(pos <= len(seed))
		src = append(append(append(src, seed[:pos]...), hole...), seed[pos:]...)
	} else {
		verifrt.Assume(pos+w <= len(seed))
		src = []byte(seed)
		for i := 0; i < w; i++ {
			src[pos+i] = hole[i]
		}
	}
	verifC05CompileAll(src)
}

// verifC05CompileAll: src compiled as a script, as an Eval fragment and as an
// imported module, with every combination of optimizer and trace options.
func verifC05CompileAll(src []byte) {
	mode := verifrt.Choice("mode", 3) // 0 Compile, 1 Eval fragment, 2 as an imported module
	opts := CompilerOptions{NoOptimize: verifrt.Choice("noopt", 2) == 1}
	if verifrt.Choice("trace", 2) == 1 {
		var wbuf bytes.Buffer
		opts.Trace = &wbuf
		opts.TraceParser, opts.TraceCompiler, opts.TraceOptimizer = true, true, true
	}
	mm := NewModuleMap()
	mm.AddSourceModule("m", []byte(`return 1`))
	opts.ModuleMap = mm
	var bc *Bytecode
	var err error
	verifrt.NoPanic("compile-no-panic", func() {
		switch mode {
		case 0:
			bc, err = Compile(src, opts)
		case 1:
			e := NewEval(opts, nil)
			_, _, err = e.Run(context.Background(), []byte(`z := 1`))
			if err == nil {
				// Eval also runs the fragment: a fragment that compiles may
				// loop for ever, which is not Compile's concern
				done := verifrt.Bounded(3_000_000, func() { _, bc, err = e.Run(context.Background(), src) }, e.VM.Abort)
				if !done {
					bc, err = nil, nil
				}
				if err != nil {
					bc = nil
				}
				// whatever happened to the fragment, the session accepts a later one
				// (not after a fragment that had to be stopped: in the engine the
				// step budget unwinds the run without releasing the VM's mutex)
				if done {
					verifrt.Bounded(3_000_000, func() {
						_, _, err2 := e.Run(context.Background(), []byte(`w9 := import("m"); return w9`))
						verifrt.Assert(err2 == nil || err != nil, "session-survives-fragment")
					}, e.VM.Abort)
				}
			}
		case 2:
			mm.AddSourceModule("hole", src)
			bc, err = Compile([]byte(`return import("hole")`), opts)
		}
	})
	if mode != 1 {
		verifrt.Assert((bc == nil) != (err == nil), "bytecode-or-error")
	}
	if err == nil && bc != nil {
		verifrt.Assert(verifWellFormed(bc), "bytecode-well-formed")
		verifrt.Reached("compiled")
	}
	verifrt.Reached("end")
}

// lexical and syntactic states in which the source may end
var verifC05Prefixes = [...]string{
	"/*", "/* x", "//", "\"ab", "\"\\", "`raw", "'a", "'\\", "1", "1.", "1e", "0x", "0b1", "x.", "x[", "f(",
	"a +", "x :=", "if a {", "func(", "{a:", "[1,", "x ?", "import(\"m\"", "try {", "for ", "1u", "a..", "x /",
	"..", "#", "\xef\xbb\xbf", "\r", "a\r\n/*", "x = `", "/**", "a /*\r", "'\\u12", "\"\\x4", "0o", "1_", "a?.",
}

// VerifC05Tail: a source that ends, in one of the lexical/syntactic states
// above, with k arbitrary bytes (SMT variables): the scanner's and parser's
// end-of-input handling for every continuation of up to k bytes.
func VerifC05Tail() {
	pre := verifC05Prefixes[verifrt.Param("prefix")]
	k := verifrt.Param("k")
	src := append([]byte(pre), verifrt.Bytes("t", k)...)
	verifC05CompileAll(src)
}

// ---------------------------------------------------------------------------
// Eval sessions: a fragment rejected for each kind of reason, after it has
// already done part of its work (imports registered, names declared), must
// leave a session in which every later fragment still compiles to well-formed
// Bytecode or an error.

var verifC05BadFrags = [...]string{
	`b := import("A"); c := import("Bsyntax")`,      // parse error inside a module imported second
	`b := import("A"); c := import("Bcompile")`,     // compile error inside a module imported second
	`b := import("A"); c := import("nope")`,         // unknown module after a good import
	`b := import("A"); d := `,                       // parse error in the fragment itself
	`b := import("A"); d := undefinedName9`,         // unresolved name after a good import
	`b := import("A"); return 1 % 0`,                // optimizer error after a good import
	`b := import("Cyc1")`,                           // import cycle
	`b := import("A2"); c := import("Bsyntax")`,     // nested good import, then a bad one
	`f := func() { return import("A") }; g := func() { return import("Bsyntax") }`, // inside functions
	`b := import("Bnested")`,                        // module that imports A and then a broken module
}

var verifC05GoodFrags = [...]string{
	`xN := import("A"); return xN.f()`,
	`return import("A2").g()`,
	`qN := 2; return qN`,
	`hN := func() { return import("A").f() + import("A2").g() }; return hN()`,
}

func VerifC05EvalSession() {
	mm := NewModuleMap()
	mm.AddSourceModule("A", []byte(`n := 40; return {f: func() { n++; return n }}`))
	mm.AddSourceModule("A2", []byte(`a := import("A"); return {g: func() { return a.f() + 100 }}`))
	mm.AddSourceModule("Bsyntax", []byte(`return {`))
	mm.AddSourceModule("Bcompile", []byte(`return undefinedName8`))
	mm.AddSourceModule("Bnested", []byte(`a := import("A"); return import("Bsyntax")`))
	mm.AddSourceModule("Cyc1", []byte(`return import("Cyc2")`))
	mm.AddSourceModule("Cyc2", []byte(`a := import("A"); return import("Cyc1")`))
	opts := CompilerOptions{ModuleMap: mm, NoOptimize: verifrt.Choice("noopt", 2) == 1}
	e := NewEval(opts, nil)
	run := func(src string) (Object, *Bytecode, error) {
		var v Object
		var bc *Bytecode
		var err error
		verifrt.NoPanic("eval-no-panic", func() { v, bc, err = e.Run(context.Background(), []byte(src)) })
		if err == nil && bc != nil {
			verifrt.AssertMsg(verifWellFormed(bc), "bytecode-well-formed", src)
		}
		return v, bc, err
	}
	if verifrt.Choice("pre", 2) == 1 {
		// the session already knows module A
		_, _, err := run(`p := import("A"); p.f()`)
		verifrt.Assert(err == nil, "first-fragment-evaluates")
	}
	bad := verifC05BadFrags[verifrt.Choice("bad", len(verifC05BadFrags))]
	_, _, err := run(bad)
	verifrt.AssertMsg(err != nil, "bad-fragment-is-an-error", bad)
	if verifrt.Choice("again", 2) == 1 {
		_, _, err = run(bad)
		verifrt.AssertMsg(err != nil, "bad-fragment-is-an-error-again", bad)
	}
	// two later fragments
	// (N in a fragment stands for its slot number: no name is declared twice)
	g1 := strings.Replace(verifC05GoodFrags[verifrt.Choice("good1", len(verifC05GoodFrags))], "N", "1", -1)
	g2 := strings.Replace(verifC05GoodFrags[verifrt.Choice("good2", len(verifC05GoodFrags))], "N", "2", -1)
	_, _, err1 := run(g1)
	verifrt.AssertMsg(err1 == nil, "session-accepts-later-fragment", bad+" || "+g1)
	_, _, err2 := run(g2)
	verifrt.AssertMsg(err2 == nil, "session-accepts-later-fragment", bad+" || "+g1+" || "+g2)
	verifrt.Reached("end")
}
