#!/bin/bash
# usage: verify_seed.sh <ID> <patch.diff> <demo_test.go> <package dir relative to repo root>
# Confirms in the scratch worktree /tmp/mutfix (at /repo HEAD): builds, suite passes with the
# change, demo fails with the change, demo passes without. Prints a JSON summary line.
set -u
ID=$1; P=$2; DEMO=$3; PKG=$4
export GOFLAGS=-mod=mod GOPROXY=off GOSUMDB=off
W=/tmp/mutfix
# the scratch worktree is created on demand; remove it afterwards with
#   git -C /repo worktree remove --force /tmp/mutfix
[ -d $W ] || git -C /repo worktree add -q --detach $W HEAD || exit 3
cd $W || exit 3
git checkout -q --detach $(git -C /repo rev-parse HEAD) 2>/dev/null
git reset -q --hard; git clean -fdq
git apply "$P" || { echo "{\"id\":\"$ID\",\"applies\":false}"; exit 1; }
go build ./... >/dev/null 2>&1; b=$?
go test -vet=off -count=1 ./... >/tmp/mutfix.suite.log 2>&1; suite=$?
cp "$DEMO" "$W/$PKG/zz_demo_test.go"
timeout 300 go test -vet=off -count=1 -run 'Demo|demo|ZZ' ./$PKG >/tmp/mutfix.demo1.log 2>&1; d1=$?
git apply -R "$P"
timeout 300 go test -vet=off -count=1 -run 'Demo|demo|ZZ' ./$PKG >/tmp/mutfix.demo0.log 2>&1; d0=$?
git reset -q --hard; git clean -fdq
echo "{\"id\":\"$ID\",\"applies\":true,\"build_rc\":$b,\"suite_rc_with_change\":$suite,\"demo_rc_with_change\":$d1,\"demo_rc_without_change\":$d0}"
