#!/bin/bash
# usage: try_mutant_wt.sh <patch.diff> <property id> [extra symgo check args]
# Like try_mutant.sh but applies the patch in a scratch worktree of /repo HEAD
# (removed afterwards) and points the check at it with VERIF_REPO, so /repo is
# never touched and several mutants can be tried at once. Evidence goes to a
# scratch VERIF_DIR copy so that /verif/evidence keeps the unchanged-tree runs.
set -u
P=$1; ID=$2; shift 2
export GOFLAGS=-mod=mod GOPROXY=off GOSUMDB=off GOTOOLCHAIN=local
W=$(mktemp -d /tmp/mutrun.XXXXXX)
git -C /repo worktree add -q --detach $W/repo HEAD || exit 3
cd $W/repo
if ! git apply "$P" 2>/dev/null; then echo "patch does not apply"; cd /; git -C /repo worktree remove --force $W/repo; rm -rf $W; exit 3; fi
go build ./... || { echo "does not build"; cd /; git -C /repo worktree remove --force $W/repo; rm -rf $W; exit 3; }
mkdir -p $W/verif/evidence
ln -s /verif/harness $W/verif/harness; cp /verif/known_findings.json $W/verif/
cd $W/verif && VERIF_REPO=$W/repo VERIF_DIR=$W/verif VERIF_HARNESS=/verif/harness /verif/bin/symgo check "$@" "$ID" 2>&1 | grep -v "^KNOWN-FINDING" | cut -c1-300 | tail -6
rc=${PIPESTATUS[0]}
cd /; git -C /repo worktree remove --force $W/repo; rm -rf $W
echo "exit=$rc"
