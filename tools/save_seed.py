#!/usr/bin/env python3
"""save_seed.py <ID> <patch> <demo> <pkgdir> <verify-json> <needs> <detected-by> [--name NAME]
Stores a confirmed seeded change under /verif/seeded/<NAME>/."""
import sys, json, os, shutil, subprocess
ID, patch, demo, pkg, vj, needs, detected = sys.argv[1:8]
name = ID
if '--name' in sys.argv: name = sys.argv[sys.argv.index('--name')+1]
d = f'/verif/seeded/{name}'
os.makedirs(d, exist_ok=True)
shutil.copy(patch, f'{d}/patch.diff')
shutil.copy(demo, f'{d}/zz_demo_test.go')
notes = os.path.join(os.path.dirname(patch), 'notes.md')
if os.path.exists(notes): shutil.copy(notes, f'{d}/notes.md')
v = json.loads(vj)
head = subprocess.check_output(['git','-C','/repo','rev-parse','--short','HEAD']).decode().strip()
meta = {
 "property": ID, "breaks": ID, "needs_to_manifest": needs,
 "demo_package_dir": pkg,
 "applies_to_repo_head": head,
 "confirmed": {"builds": v["build_rc"]==0, "existing_suite_passes_with_change": v["suite_rc_with_change"]==0,
               "demo_fails_with_change": v["demo_rc_with_change"]!=0, "demo_passes_without_change": v["demo_rc_without_change"]==0},
 "what_i_ran": [f"tools/verify_seed.sh {ID} patch.diff zz_demo_test.go {pkg} (scratch worktree /tmp/mutfix at /repo HEAD: go build ./..., go test ./..., demo with and without the change)",
                f"tools/try_mutant.sh seeded/{name}/patch.diff {ID}"],
 "detected_by": detected,
 "origin": "independent sub-agent given only the property text and a scratch worktree",
}
json.dump(meta, open(f'{d}/meta.json','w'), indent=1)
print("saved", d)
