#!/bin/bash
# usage: try_mutant.sh <patch.diff> <property id> [extra symgo check args]
# Applies the patch to /repo, runs the quick check, restores /repo.
set -u
P=$1; ID=$2; shift 2
cd /repo || exit 3
if ! git diff --quiet || ! git diff --cached --quiet; then echo "repo not clean"; exit 3; fi
if ! git apply "$P" 2>/dev/null; then
  if ! git apply --3way "$P"; then echo "patch does not apply"; git reset -q --hard HEAD; exit 3; fi
fi
(cd /repo && go build ./... ) || { echo "does not build"; git reset -q --hard HEAD; exit 3; }
cd /verif && /verif/bin/symgo check "$@" "$ID" 2>&1 | cut -c1-400 | tail -12
rc=${PIPESTATUS[0]}
cd /repo && git reset -q --hard HEAD
echo "exit=$rc"
