#!/bin/bash
# run inside a vp-run snapshot: builds the engine there and runs checks with evidence written into the snapshot
export GOFLAGS=-mod=mod GOPROXY=off GOSUMDB=off GOTOOLCHAIN=local VERIF_DIR=$PWD
(cd engine && go build -o ../bin/symgo ./cmd/symgo) || exit 3
for id in "$@"; do
  echo "=== $id"; /usr/bin/time -v ./bin/symgo check --tier ${TIER:-thorough} -j ${J:-8} $id 2>&1 | grep -v "^\s" | cut -c1-400 | tail -30
done
