#!/bin/bash
# run inside a vp-run snapshot: builds the engine there and runs checks with evidence written into the snapshot
export GOFLAGS=-mod=mod GOPROXY=off GOSUMDB=off GOTOOLCHAIN=local VERIF_DIR=$PWD
[ -n "${VP_RUN_REPO:-}" ] && export VERIF_REPO=$VP_RUN_REPO
(cd engine && go build -o ../bin/symgo ./cmd/symgo) || exit 3
for id in "$@"; do
  echo "=== $id"; /usr/bin/time -v ./bin/symgo check --timing --tier ${TIER:-thorough} -j ${J:-8} $id > out.$id.log 2>&1; grep TIMING out.$id.log | sort -k2 -n -r | head -12; grep -v "TIMING\|^\s" out.$id.log | cut -c1-400 | tail -30
done
