#!/usr/bin/env python3
"""Regenerates /verif/MANIFEST.json from the table below."""
import json
props=[json.loads(l) for l in open('/verif/properties.jsonl')]
TV={'C01','C04','C11'}
built={
 'C01':"optimised vs unoptimised compilation of a program family run symbolically + fold kernels",
 'C04':"symbolic encode/decode round trips of every object kind (map keys in every order) and of compiled programs incl. the shared program corpus",
 'C11':"real programs down-converted to v1 by a reference and decoded by the real v1 path, compared instruction for instruction (incl. the shared program corpus); symbolic kernel through the public v1 path with neighbouring functions",
 'C15':"operator laws and documented operator table over the complete scalar domain",
 'C18':"decoders executed on symbolic buffers, framed containers and corruptions of valid encodings, nested size fields as symbolic 64-bit varints; panic and allocation monitors",
}
NA={}
import os
extra='/verif/tools/manifest_extra.json'
if os.path.exists(extra):
    e=json.load(open(extra)); built.update(e.get('built',{})); NA.update(e.get('not_applicable',{})); TV|=set(e.get('tv',[]))
checks=[]
for p in props:
    i=p['id']
    if i in built:
        cat='translation_validation' if i in TV else 'model_checking'
        checks.append({
          "property_id":i,
          "quick_cmd":"/verif/bin/symgo check --tier quick %s"%i,
          "thorough_cmd":"/verif/bin/symgo check --tier thorough %s"%i,
          "evidence_file":"/verif/evidence/%s.json"%i,
          "replay_cmd_template":"/verif/bin/symgo replay %s {path}"%i,
          "engine":"symgo",
          "level_claimed":{"category":cat,"text":"bounded symbolic execution of the real Go code (lifted from go/ssa on every run) with z3 deciding every branch and assertion: "+built[i]+"; a pass means: holds for every value within the bounds listed in the evidence file, nothing outside","design_ref":"DESIGN.md section 5 "+i},
          "level_note":"trusted: go/ssa, the symgo interpreter and its SMT encoding (cross-checked by native replay of every reachability and failure witness against the real build), z3 4.8.12; stdlib models and stubs are listed per run in the evidence file",
          "technique":"solver-based: symbolic execution of go/ssa + SMT (z3), bounded; counterexamples replayed natively"
        })
na=[]
for p in props:
    if p['id'] not in built:
        na.append({"property_id":p['id'],"reason":NA.get(p['id'],"check not built yet in this session (work in progress)")})
m={"version":1,
 "setup_cmd":"cd /verif/engine && GOFLAGS=-mod=mod GOPROXY=off GOSUMDB=off GOTOOLCHAIN=local go build -o /verif/bin/symgo ./cmd/symgo",
 "hooks":{"guard":"verif","enable":"harness files (//go:build verif) are injected with go/packages Overlay (engine) and `go test -tags verif -overlay` (native replay). Source hooks committed to /repo: verifsync.go (//go:build !verif: no-op verifSync), verifsync_verif.go (//go:build verif: VerifSyncHook) and add-only calls `verifSync(\"<point>\", vm)` in vm.go (Run, Abort, Invoker.acquire/Invoke, vmPool.acquire/release) and eval.go (Eval.run); used by C09 only","baseline_off_cmd":"cd /repo && go test -mod=mod -vet=off -count=1 -timeout 25m ./...","source_commits":["a3f5d17","dcd3227"],"add_only":True},
 "engines":[{"name":"symgo","path":"/verif/engine","serves_properties":sorted(built),"kind_free_text":"symbolic executor for Go SSA (fork of x/tools go/ssa/interp v0.29.0) with SMT-LIB2 back end (z3 4.8.12), solver-guided path exploration by deterministic re-execution, monitors (escaped panic, allocation, frozen objects), native replay of witnesses"}],
 "checks":checks,
 "not_applicable":na,
 "notes":"exit 0 = held within stated bounds (KNOWN-FINDING lines for listed, still reproducing defects); exit 1 = VIOLATION confirmed by native replay; exit 2 = INCONCLUSIVE (solver unknown, bound hit, engine limitation, or counterexample not reproduced natively). Genuine defects repaired in /repo are the 'fix:' commits listed as fixed in /verif/known_findings.json."}
json.dump(m,open('/verif/MANIFEST.json','w'),indent=1)
print(len(checks),"checks,",len(na),"not applicable")
