#!/bin/bash
# runs every quick check on /repo as it is, sequentially; summary lines to stdout
export GOFLAGS=-mod=mod GOPROXY=off GOSUMDB=off GOTOOLCHAIN=local
cd /verif
for i in $(seq -w 1 20); do
  id=C$i
  s=$(date +%s)
  out=$(/verif/bin/symgo check --tier ${TIER:-quick} $id 2>&1); rc=$?
  e=$(date +%s)
  echo "$id rc=$rc $((e-s))s $(echo "$out" | grep "^$id tier" | cut -c1-200)"
  echo "$out" | grep "^VIOLATION\|^INCONCLUSIVE" | head -5 | cut -c1-300
done
