package interp

// Deterministic goroutines: interpreted goroutines run on host goroutines but
// exactly one holds the baton at any time; context switches happen only at
// synchronisation operations. Channels are engine objects.

import (
	"fmt"
	"go/types"
	"runtime"
	"runtime/debug"

	"golang.org/x/tools/go/ssa"
)

type gthread struct {
	id      int
	wake    chan struct{}
	state   int // 0 runnable, 1 blocked, 2 done
	depth   int
	blocked string
}

type gsched struct {
	threads []*gthread
	cur     *gthread
	dead    bool
	abort   interface{} // panic value to deliver to the main thread
	explore bool        // schedule exploration: yields are choice points
	preempt int         // remaining pre-emptions
	spin    int
}

type schedDead struct{}

func (i *interpreter) sch() *gsched {
	if i.sched == nil {
		main := &gthread{id: 0, wake: make(chan struct{}, 1)}
		i.sched = &gsched{threads: []*gthread{main}, cur: main}
	}
	return i.sched
}

// runnable returns the runnable threads other than cur.
func (s *gsched) others() []*gthread {
	var r []*gthread
	for _, t := range s.threads {
		if t != s.cur && t.state == 0 {
			r = append(r, t)
		}
	}
	return r
}

// switchTo hands the baton to t and parks the current thread until woken.
func (i *interpreter) switchTo(t *gthread) {
	s := i.sched
	me := s.cur
	me.depth = i.depth
	s.cur = t
	i.depth = t.depth
	t.wake <- struct{}{}
	if me.state == 2 {
		return
	}
	<-me.wake
	if s.dead {
		panic(schedDead{})
	}
	if me.id == 0 && s.abort != nil {
		a := s.abort
		s.abort = nil
		panic(a)
	}
}

// yield is called at every synchronisation operation.
func (i *interpreter) yield(what string) {
	s := i.sched
	if s == nil || len(s.threads) == 1 {
		return
	}
	if s.dead {
		panic(schedDead{})
	}
	if !s.explore || s.preempt <= 0 {
		return
	}
	o := s.others()
	if len(o) == 0 {
		return
	}
	k := i.choice(len(o)+1, "sched:"+what)
	if k == 0 {
		return
	}
	s.preempt--
	i.switchTo(o[k-1])
}

// giveUp models runtime.Gosched: the current thread stays runnable and the
// next runnable thread (round-robin by id) runs.
func (i *interpreter) giveUp() {
	s := i.sched
	if s == nil || len(s.threads) == 1 {
		return
	}
	if s.dead {
		panic(schedDead{})
	}
	if s.explore {
		i.yield("gosched")
		return
	}
	n := len(s.threads)
	for k := 1; k < n; k++ {
		t := s.threads[(s.cur.id+k)%n]
		if t.state == 0 {
			i.switchTo(t)
			return
		}
	}
}

// block parks the current thread (which cannot proceed) and runs another.
func (i *interpreter) block(why string) {
	s := i.sch()
	if s.dead {
		panic(schedDead{})
	}
	o := s.others()
	if len(o) == 0 {
		// is anybody else alive at all?
		panic(engineAbort{kind: abortUnsupported, msg: "deadlock: all goroutines blocked (" + why + ")"})
	}
	me := s.cur
	me.state = 1
	me.blocked = why
	var t *gthread
	if s.explore && len(o) > 1 {
		t = o[i.choice(len(o), "sched:block")]
	} else {
		t = o[0]
	}
	i.switchTo(t)
	me.state = 0
}

// unblockAll makes every blocked thread runnable again (they re-check their condition).
func (s *gsched) unblockAll() {
	for _, t := range s.threads {
		if t.state == 1 {
			t.state = 0
		}
	}
}

func (i *interpreter) goStmt(fr *frame, instr *ssa.Go) {
	fn, args := prepareCall(fr, &instr.Call)
	s := i.sch()
	t := &gthread{id: len(s.threads), wake: make(chan struct{}, 1)}
	s.threads = append(s.threads, t)
	go func() {
		<-t.wake
		if s.dead {
			return
		}
		defer func() {
			r := recover()
			t.state = 2
			if _, isDead := r.(schedDead); isDead || s.dead {
				return
			}
			if r != nil {
				// any panic escaping a goroutine ends the path: deliver to main
				if s.abort == nil {
					switch rr := r.(type) {
					case stepBudgetExceeded:
						s.abort = rr
					case engineAbort:
						s.abort = rr
					case targetPanic:
						s.abort = rr
					case runtime.Error:
						if isEngineBug(rr) {
							s.abort = engineAbort{kind: abortUnsupported, msg: "engine: " + rr.Error() + "\n" + string(debug.Stack())}
						} else {
							s.abort = rr
						}
					default:
						s.abort = engineAbort{kind: abortUnsupported, msg: fmt.Sprintf("goroutine panic %T: %v", r, r)}
					}
				}
				main := s.threads[0]
				main.state = 0
				s.cur = main
				i.depth = main.depth
				main.wake <- struct{}{}
				return
			}
			// normal end: pass the baton on
			s.unblockAll()
			var next *gthread
			for _, o := range s.threads {
				if o != t && o.state == 0 {
					next = o
					break
				}
			}
			if next == nil {
				s.abort = engineAbort{kind: abortUnsupported, msg: "deadlock after goroutine exit"}
				next = s.threads[0]
			}
			s.cur = next
			i.depth = next.depth
			next.wake <- struct{}{}
		}()
		call(i, nil, instr.Pos(), fn, args)
	}()
	i.yield("go")
}

// killThreads releases every parked host goroutine at the end of a path.
func (i *interpreter) killThreads() {
	s := i.sched
	if s == nil {
		return
	}
	s.dead = true
	for _, t := range s.threads[1:] {
		if t.state != 2 {
			select {
			case t.wake <- struct{}{}:
			default:
			}
		}
	}
}

// ---------------------------------------------------------------------------
// mutexes

func (i *interpreter) lock(p *value) {
	i.yield("lock")
	for {
		if owner, held := i.side[p]; !held || owner == nil {
			tid := 0
			if i.sched != nil {
				tid = i.sched.cur.id
			}
			i.side[p] = tid + 1
			return
		}
		if i.sched == nil || len(i.sched.threads) == 1 {
			panic(engineAbort{kind: abortUnsupported, msg: "self-deadlock on mutex"})
		}
		i.block("mutex")
	}
}

func (i *interpreter) unlock(p *value) {
	delete(i.side, p)
	if i.sched != nil {
		i.sched.unblockAll()
	}
	i.yield("unlock")
}

// ---------------------------------------------------------------------------
// channels

type gchan struct {
	cap    int
	buf    []value
	closed bool
	sendq  []*sendItem
	recvW  int
	elem   types.Type
}

type sendItem struct {
	v     value
	taken bool
}

func (i *interpreter) makeChan(instr *ssa.MakeChan, size value) value {
	return &gchan{cap: int(asInt64(size)), elem: instr.Type().Underlying().(*types.Chan).Elem()}
}

func (c *gchan) recvReady() bool { return c != nil && (len(c.buf) > 0 || len(c.sendq) > 0 || c.closed) }
func (c *gchan) sendReady() bool {
	return c != nil && (c.closed || (c.cap > 0 && len(c.buf) < c.cap) || (c.cap == 0 && c.recvW > 0))
}

func (c *gchan) doRecv() (value, bool) {
	if len(c.buf) > 0 {
		v := c.buf[0]
		c.buf = c.buf[1:]
		if len(c.sendq) > 0 { // a blocked sender on a full buffered channel
			it := c.sendq[0]
			c.sendq = c.sendq[1:]
			c.buf = append(c.buf, it.v)
			it.taken = true
		}
		return v, true
	}
	if len(c.sendq) > 0 {
		it := c.sendq[0]
		c.sendq = c.sendq[1:]
		it.taken = true
		return it.v, true
	}
	return nil, false // closed
}

func (i *interpreter) chanSend(c *gchan, v value) {
	i.yield("send")
	if c == nil {
		for {
			i.block("send on nil channel")
		}
	}
	if c.closed {
		panic(rtErr("send on closed channel"))
	}
	if c.cap > 0 && len(c.buf) < c.cap {
		c.buf = append(c.buf, v)
		i.sch().unblockAll()
		return
	}
	it := &sendItem{v: v}
	c.sendq = append(c.sendq, it)
	i.sch().unblockAll()
	for !it.taken {
		if c.closed {
			panic(rtErr("send on closed channel"))
		}
		i.block("chan send")
	}
}

func (i *interpreter) chanRecv(instr *ssa.UnOp, x value) value {
	c, _ := x.(*gchan)
	i.yield("recv")
	if c == nil {
		for {
			i.block("recv on nil channel")
		}
	}
	for !c.recvReady() {
		c.recvW++
		i.block("chan recv")
		c.recvW--
	}
	v, ok := c.doRecv()
	i.sch().unblockAll()
	if !ok {
		v = zero(c.elem)
	}
	if instr.CommaOk {
		return tuple{v, ok}
	}
	return v
}

func (i *interpreter) chanClose(c *gchan) {
	if c == nil {
		panic(rtErr("close of nil channel"))
	}
	if c.closed {
		panic(rtErr("close of closed channel"))
	}
	c.closed = true
	i.sch().unblockAll()
	i.yield("close")
}

func (i *interpreter) selectStmt(fr *frame, instr *ssa.Select) value {
	i.yield("select")
	type cs struct {
		c    *gchan
		send bool
		v    value
	}
	cases := make([]cs, len(instr.States))
	for k, st := range instr.States {
		c, _ := fr.get(st.Chan).(*gchan)
		cases[k] = cs{c: c, send: st.Dir == types.SendOnly}
		if st.Send != nil {
			cases[k].v = fr.get(st.Send)
		}
	}
	chosen := -1
	for {
		var ready []int
		for k, c := range cases {
			if c.send && c.c.sendReady() || !c.send && c.c.recvReady() {
				ready = append(ready, k)
			}
		}
		if len(ready) > 0 {
			chosen = ready[0]
			if len(ready) > 1 && i.sched != nil && i.sched.explore {
				chosen = ready[i.choice(len(ready), "select")]
			}
			break
		}
		if !instr.Blocking {
			break
		}
		for _, c := range cases {
			if !c.send && c.c != nil {
				c.c.recvW++
			}
		}
		i.block("select")
		for _, c := range cases {
			if !c.send && c.c != nil {
				c.c.recvW--
			}
		}
	}
	var recvV value
	recvOk := false
	if chosen >= 0 {
		c := cases[chosen]
		if c.send {
			if c.c.closed {
				panic(rtErr("send on closed channel"))
			}
			if c.c.cap > 0 {
				c.c.buf = append(c.c.buf, c.v)
			} else {
				c.c.sendq = append(c.c.sendq, &sendItem{v: c.v})
			}
		} else {
			recvV, recvOk = c.c.doRecv()
		}
		i.sch().unblockAll()
	}
	r := tuple{chosen, recvOk}
	for k, st := range instr.States {
		if st.Dir == types.RecvOnly {
			var v value
			if k == chosen && recvOk {
				v = recvV
			} else {
				v = zero(st.Chan.Type().Underlying().(*types.Chan).Elem())
			}
			r = append(r, v)
		}
	}
	return r
}
