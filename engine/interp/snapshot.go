package interp

// Globals snapshot: package initialisers run once per Program; every path
// starts from an alias-preserving deep copy of the module's initialised
// globals. Everything reachable from standard-library globals is treated as
// immutable after init and shared between paths.

import (
	"fmt"
	"go/token"
	"sort"
	"strings"
	"unsafe"

	"golang.org/x/tools/go/ssa"
)

const valSize = unsafe.Sizeof(value(nil))

type extent struct {
	base, end uintptr
	first     *value // &full[0]
	n         int
}

type snapshot struct {
	globals map[*ssa.Global]*value
	side    map[*value]interface{}
	shared  []extent           // sorted, merged extents of shared slices
	sharedP map[*value]bool    // shared standalone cells
	sharedO map[interface{}]bool // shared *omap/*closure/*gchan
	steps   int64

	// precomputed module part
	mod      []*ssa.Global
	modExts  []extent
	modCells []*value
	modObjs  []interface{}
}

func sliceExtent(s []value) (extent, bool) {
	if cap(s) == 0 {
		return extent{}, false
	}
	full := s[:cap(s)]
	b := uintptr(unsafe.Pointer(&full[0]))
	return extent{base: b, end: b + uintptr(len(full))*valSize, first: &full[0], n: len(full)}, true
}

// collector gathers extents and cells reachable from a set of roots.
type collector struct {
	exts  []extent
	cells map[*value]bool
	objs  map[interface{}]bool
	seenS map[uintptr]int // slice base -> max cap seen
	stop  func(p *value) bool
}

func newCollector() *collector {
	return &collector{cells: map[*value]bool{}, objs: map[interface{}]bool{}, seenS: map[uintptr]int{}}
}

func (c *collector) slice(s []value) {
	e, ok := sliceExtent(s)
	if !ok {
		return
	}
	if n, seen := c.seenS[e.base]; seen && n >= e.n {
		return
	}
	c.seenS[e.base] = e.n
	c.exts = append(c.exts, e)
	full := s[:cap(s)]
	for k := range full {
		c.val(full[k])
	}
}

func (c *collector) val(v value) {
	switch v := v.(type) {
	case []value:
		c.slice(v)
	case array:
		c.slice(v)
	case structure:
		c.slice(v)
	case tuple:
		c.slice(v)
	case *value:
		if v == nil || c.cells[v] {
			return
		}
		c.cells[v] = true
		c.val(*v)
	case iface:
		c.val(v.v)
	case *omap:
		if v == nil || c.objs[v] {
			return
		}
		c.objs[v] = true
		for k := range v.keys {
			if !v.dead[k] {
				c.val(v.keys[k])
				c.val(v.vals[k])
			}
		}
	case *closure:
		if v == nil || c.objs[v] {
			return
		}
		c.objs[v] = true
		for _, e := range v.Env {
			c.val(e)
		}
	case *gchan:
		if v == nil || c.objs[v] {
			return
		}
		c.objs[v] = true
		for _, e := range v.buf {
			c.val(e)
		}
	case sstr:
		c.slice(v.b)
	}
}

func mergeExtents(exts []extent) []extent {
	sort.Slice(exts, func(a, b int) bool { return exts[a].base < exts[b].base })
	var out []extent
	for _, e := range exts {
		if len(out) > 0 && e.base < out[len(out)-1].end {
			if e.end > out[len(out)-1].end {
				l := &out[len(out)-1]
				l.n += int((e.end - l.end) / valSize)
				l.end = e.end
			}
			continue
		}
		out = append(out, e)
	}
	return out
}

func findExtent(exts []extent, a uintptr) int {
	k := sort.Search(len(exts), func(k int) bool { return exts[k].end > a })
	if k < len(exts) && exts[k].base <= a {
		return k
	}
	return -1
}

// buildSnapshot runs the initialisers of all module packages once.
func (P *Program) buildSnapshot() (*snapshot, error) {
	i := newInterpreter(P)
	i.maxSteps = 0
	var err error
	func() {
		defer func() {
			if r := recover(); r != nil {
				err = fmt.Errorf("package init failed in engine: %v", r)
			}
		}()
		var paths []string
		for p := range P.Pkgs {
			if strings.HasPrefix(p, P.Module) {
				paths = append(paths, p)
			}
		}
		sort.Strings(paths)
		for _, p := range paths {
			if f := P.Pkgs[p].Func("init"); f != nil {
				call(i, nil, token.NoPos, f, nil)
			}
		}
	}()
	if err != nil {
		return nil, err
	}
	s := &snapshot{globals: i.globals, side: i.side, steps: i.steps}
	// shared region: everything reachable from non-module globals
	c := newCollector()
	for g, p := range i.globals {
		if g.Pkg != nil && strings.HasPrefix(g.Pkg.Pkg.Path(), P.Module) {
			continue
		}
		c.val(p)
	}
	s.shared = mergeExtents(c.exts)
	s.sharedP = c.cells
	s.sharedO = c.objs
	s.prepare(P)
	return s, nil
}

// cloner copies the module part of a snapshot.
type cloner struct {
	s     *snapshot
	exts  []extent
	news  [][]value
	cells map[*value]*value
	objs  map[interface{}]interface{}
}

func (cl *cloner) isSharedAddr(a uintptr) bool { return findExtent(cl.s.shared, a) >= 0 }

func (cl *cloner) ptr(p *value) *value {
	if p == nil {
		return nil
	}
	a := uintptr(unsafe.Pointer(p))
	if k := findExtent(cl.exts, a); k >= 0 {
		return &cl.news[k][(a-cl.exts[k].base)/valSize]
	}
	if cl.s.sharedP[p] || cl.isSharedAddr(a) {
		return p
	}
	if n, ok := cl.cells[p]; ok {
		return n
	}
	// a cell not seen in the collection pass (cannot happen): keep
	return p
}

func (cl *cloner) slice(s []value) []value {
	if s == nil {
		return nil
	}
	if cap(s) == 0 {
		return s
	}
	e, _ := sliceExtent(s)
	if cl.isSharedAddr(e.base) {
		return s
	}
	k := findExtent(cl.exts, e.base)
	if k < 0 {
		return s
	}
	off := int((e.base - cl.exts[k].base) / valSize)
	return cl.news[k][off : off+len(s) : off+cap(s)]
}

func (cl *cloner) val(v value) value {
	switch v := v.(type) {
	case []value:
		return cl.slice(v)
	case array:
		return array(cl.slice(v))
	case structure:
		return structure(cl.slice(v))
	case tuple:
		return tuple(cl.slice(v))
	case *value:
		return cl.ptr(v)
	case iface:
		return iface{t: v.t, v: cl.val(v.v)}
	case *omap:
		if v == nil || cl.s.sharedO[v] {
			return v
		}
		if n, ok := cl.objs[v]; ok {
			return n
		}
		return v
	case *closure:
		if v == nil || cl.s.sharedO[v] {
			return v
		}
		if n, ok := cl.objs[v]; ok {
			return n
		}
		return v
	case *gchan:
		if v == nil || cl.s.sharedO[v] {
			return v
		}
		if n, ok := cl.objs[v]; ok {
			return n
		}
		return v
	}
	return v
}

// prepare computes, once, what clone has to copy.
func (s *snapshot) prepare(P *Program) {
	c := newCollector()
	// do not descend into shared memory
	for p := range s.sharedP {
		c.cells[p] = true
	}
	for o := range s.sharedO {
		c.objs[o] = true
	}
	for _, e := range s.shared {
		c.seenS[e.base] = 1 << 30
	}
	for g, p := range s.globals {
		if g.Pkg != nil && strings.HasPrefix(g.Pkg.Pkg.Path(), P.Module) {
			s.mod = append(s.mod, g)
			c.val(p)
		}
	}
	var exts []extent
	for _, e := range c.exts {
		if findExtent(s.shared, e.base) < 0 {
			exts = append(exts, e)
		}
	}
	s.modExts = mergeExtents(exts)
	for p := range c.cells {
		if s.sharedP[p] {
			continue
		}
		a := uintptr(unsafe.Pointer(p))
		if findExtent(s.modExts, a) >= 0 || findExtent(s.shared, a) >= 0 {
			continue
		}
		s.modCells = append(s.modCells, p)
	}
	for o := range c.objs {
		if !s.sharedO[o] {
			s.modObjs = append(s.modObjs, o)
		}
	}
}

// clone returns fresh globals (and side table) for one path.
func (s *snapshot) clone(P *Program) (map[*ssa.Global]*value, map[*value]interface{}) {
	cl := &cloner{s: s, exts: s.modExts, cells: make(map[*value]*value, len(s.modCells)), objs: make(map[interface{}]interface{}, len(s.modObjs))}
	cl.news = make([][]value, len(cl.exts))
	total := 0
	for _, e := range cl.exts {
		total += e.n
	}
	arena := make([]value, total)
	for k, e := range cl.exts {
		cl.news[k] = arena[:e.n:e.n]
		arena = arena[e.n:]
	}
	cellArena := make([]value, len(s.modCells))
	for k, p := range s.modCells {
		cl.cells[p] = &cellArena[k]
	}
	for _, o := range s.modObjs {
		switch o := o.(type) {
		case *omap:
			cl.objs[o] = &omap{keyType: o.keyType, builtin: o.builtin}
		case *closure:
			cl.objs[o] = &closure{Fn: o.Fn}
		case *gchan:
			cl.objs[o] = &gchan{cap: o.cap, closed: o.closed, elem: o.elem}
		}
	}
	mod := s.mod
	// fill
	for k, e := range cl.exts {
		old := unsafe.Slice(e.first, e.n)
		for j := range old {
			cl.news[k][j] = cl.val(old[j])
		}
	}
	for p, n := range cl.cells {
		*n = cl.val(*p)
	}
	for o, n := range cl.objs {
		switch o := o.(type) {
		case *omap:
			nm := n.(*omap)
			if nm.builtin {
				nm.idx = make(map[value]int, len(o.keys))
			} else {
				nm.hidx = make(map[int][]int, len(o.keys))
			}
			for k := range o.keys {
				if !o.dead[k] {
					nm.insert(nil, cl.val(o.keys[k]), cl.val(o.vals[k]))
				}
			}
		case *closure:
			nc := n.(*closure)
			nc.Env = make([]value, len(o.Env))
			for k := range o.Env {
				nc.Env[k] = cl.val(o.Env[k])
			}
		case *gchan:
			nc := n.(*gchan)
			for _, e := range o.buf {
				nc.buf = append(nc.buf, cl.val(e))
			}
		}
	}
	globals := make(map[*ssa.Global]*value, len(s.globals))
	for g, p := range s.globals {
		globals[g] = p
	}
	for _, g := range mod {
		globals[g] = cl.ptr(s.globals[g])
	}
	side := make(map[*value]interface{}, len(s.side))
	for p, v := range s.side {
		side[cl.ptr(p)] = v
	}
	return globals, side
}
