package interp

// Path exploration by deterministic re-execution: a path is a vector of
// decisions; at a symbolic branch beyond the recorded prefix both sides are
// checked for feasibility under the current path condition, one is taken and
// the other is queued.

import (
	"fmt"
	"os"
	"time"
	"sort"
	"strings"
)

type abortKind int

const (
	abortAssume      abortKind = iota // Assume(false): path ends silently
	abortTruncated                    // step/loop/size bound hit: unwinding assertion failed
	abortUnsupported                  // engine cannot model something: inconclusive
	abortSolver                       // solver error
	abortDone                         // harness asked to stop this path
)

// engineAbort unwinds the interpreter without running interpreted defers.
type engineAbort struct {
	kind abortKind
	msg  string
}

func (e engineAbort) String() string { return fmt.Sprintf("engineAbort(%d): %s", e.kind, e.msg) }

type decision struct {
	Val    int    // branch taken (0/1 for binary; k for Choice)
	N      int    // arity
	Aux    uint64 // model value for concretisation decisions
	Site   string
	Forced bool
}

// Input is one nondeterministic input of a path, in creation order.
type Input struct {
	Name  string `json:"name"`
	Kind  string `json:"kind"`
	Term  string `json:"-"`
	Value uint64 `json:"value"` // raw bits / 0|1 / chosen index
}

// Witness is a concrete assignment for one event of one path.
type Witness struct {
	Pkg       string           `json:"pkg"`
	Harness   string           `json:"harness"`
	Params    map[string]int64 `json:"params,omitempty"`
	Event     string           `json:"event"` // "fail", "reach", "panic"
	ID        string           `json:"id"`
	Known     []string         `json:"known,omitempty"`
	Inputs    []Input          `json:"inputs"`
	Decisions string           `json:"decisions"`
	Detail    string           `json:"detail,omitempty"`
}

// explorer is the per-path symbolic state.
type explorer struct {
	job    *Job
	s      *Solver
	prefix []decision
	trail  []decision
	pos    int

	nameCtr int
	inputs  []Input
	ufs     map[string]string
	bitsOf  map[string]string
	known   []string // active known-finding labels
	dead    bool     // path condition became unknown-infeasible

	asserts    int
	discharged int
	events     []Witness
	reached    map[string]bool
	notes      []string
}

func (e *explorer) replaying() bool { return e.pos < len(e.prefix) }

func (e *explorer) fresh(sort, hint string) string {
	n := fmt.Sprintf("v%d_%s", e.nameCtr, sanitize(hint))
	e.nameCtr++
	e.s.Send(fmt.Sprintf("(declare-const %s %s)", n, sort))
	return n
}

func (e *explorer) define(sort, term string) string {
	n := fmt.Sprintf("d%d", e.nameCtr)
	e.nameCtr++
	e.s.Send(fmt.Sprintf("(define-fun %s () %s %s)", n, sort, term))
	return n
}

func (e *explorer) uf(name string, args []string, ret string) string {
	if e.ufs == nil {
		e.ufs = map[string]string{}
	}
	if _, ok := e.ufs[name]; !ok {
		e.s.Send(fmt.Sprintf("(declare-fun %s (%s) %s)", name, strings.Join(args, " "), ret))
		e.ufs[name] = ret
	}
	return name
}

func (e *explorer) assume(term string) { e.s.Send("(assert " + term + ")") }

func sanitize(s string) string {
	var sb strings.Builder
	for _, c := range s {
		if c >= 'a' && c <= 'z' || c >= 'A' && c <= 'Z' || c >= '0' && c <= '9' || c == '_' {
			sb.WriteRune(c)
		} else {
			sb.WriteByte('_')
		}
	}
	return sb.String()
}

func (e *explorer) decisionString() string {
	var sb strings.Builder
	for _, d := range e.trail {
		if d.N <= 2 && d.Aux == 0 {
			sb.WriteByte(byte('0' + d.Val))
		} else if d.N > 2 {
			fmt.Fprintf(&sb, "[%d]", d.Val)
		} else {
			fmt.Fprintf(&sb, "%d<%d>", d.Val, d.Aux)
		}
	}
	return sb.String()
}

// decide resolves a symbolic branch condition.
func (i *interpreter) decide(cond string, site string) bool {
	return i.decideAux(cond, site, 0, false)
}

// decideAux: trueKnownFeasible says the caller already knows cond is
// satisfiable under the path condition (it came from a model).
func (i *interpreter) decideAux(cond, site string, aux uint64, trueKnownFeasible bool) bool {
	e := i.ex
	if e == nil {
		panic(engineAbort{kind: abortUnsupported, msg: "symbolic branch outside exploration"})
	}
	i.job().countDecision()
	if !i.deadline.IsZero() && time.Now().After(i.deadline) {
		panic(engineAbort{kind: abortTruncated, msg: "path wall limit"})
	}
	if e.replaying() {
		d := e.prefix[e.pos]
		if d.Site != site || d.N != 2 {
			panic(engineAbort{kind: abortUnsupported, msg: fmt.Sprintf("non-deterministic replay: decision %d was %q now %q", e.pos, d.Site, site)})
		}
		e.pos++
		e.trail = append(e.trail, d)
		if d.Val == 1 {
			e.assume(cond)
		} else {
			e.assume(app("not", cond))
		}
		return d.Val == 1
	}
	rT := "sat"
	if os.Getenv("SYMGO_SLOW") != "" {
		e.s.SlowHook = func(d time.Duration) {
			fmt.Fprintf(os.Stderr, "SLOW %v at %s cond=%.300s\n", d, site, cond)
		}
	}
	if !trueKnownFeasible {
		rT = e.s.Check(cond)
	}
	if rT == "unsat" {
		e.trail = append(e.trail, decision{Val: 0, N: 2, Aux: aux, Site: site, Forced: true})
		e.pos = len(e.trail)
		e.prefix = e.trail
		e.assume(app("not", cond))
		return false
	}
	rF := e.s.Check(app("not", cond))
	if rF == "unsat" {
		e.trail = append(e.trail, decision{Val: 1, N: 2, Aux: aux, Site: site, Forced: true})
		e.pos = len(e.trail)
		e.prefix = e.trail
		e.assume(cond)
		return true
	}
	if rT == "unknown" || rF == "unknown" {
		i.job().note("solver unknown in feasibility check at " + site)
		i.job().unknownFeas++
	}
	// both feasible (or unknown): take true now, queue false.
	alt := make([]decision, len(e.trail)+1)
	copy(alt, e.trail)
	alt[len(e.trail)] = decision{Val: 0, N: 2, Aux: aux, Site: site}
	i.job().enqueue(alt)
	e.trail = append(e.trail, decision{Val: 1, N: 2, Aux: aux, Site: site})
	e.pos = len(e.trail)
	e.prefix = e.trail
	e.assume(cond)
	return true
}

// choice is an n-ary concrete branching point (no solver involved).
func (i *interpreter) choice(n int, site string) int {
	e := i.ex
	i.job().countDecision()
	if n <= 0 {
		panic(engineAbort{kind: abortUnsupported, msg: "Choice with n<=0"})
	}
	if e.replaying() {
		d := e.prefix[e.pos]
		if d.Site != site || d.N != n+2 {
			panic(engineAbort{kind: abortUnsupported, msg: fmt.Sprintf("non-deterministic replay: choice %d was %q now %q", e.pos, d.Site, site)})
		}
		e.pos++
		e.trail = append(e.trail, d)
		return d.Val
	}
	for k := n - 1; k >= 1; k-- {
		alt := make([]decision, len(e.trail)+1)
		copy(alt, e.trail)
		alt[len(e.trail)] = decision{Val: k, N: n + 2, Site: site}
		i.job().enqueue(alt)
	}
	e.trail = append(e.trail, decision{Val: 0, N: n + 2, Site: site})
	e.pos = len(e.trail)
	e.prefix = e.trail
	return 0
}

// modelValue returns the value of bit-vector/bool term t in some model of the
// current path condition.
func (i *interpreter) modelValue(t string) (uint64, bool) {
	e := i.ex
	r := e.s.CheckSat()
	if r != "sat" {
		return 0, false
	}
	vals, err := e.s.GetValues([]string{t})
	if err != nil {
		return 0, false
	}
	return parseBV(vals[0])
}

// concInt makes a symbolic integer concrete for an operation that is defined
// for lo <= v < hi and panics (in Go) outside: out-of-range values are
// represented by one model value; in-range values are enumerated.
func (i *interpreter) concInt(x value, lo, hi int64, site string) int64 {
	s, ok := x.(sym)
	if !ok {
		return asInt64(x)
	}
	e := i.ex
	w := kindWidth(s.k)
	var inr string
	if kindSigned(s.k) {
		inr = fmt.Sprintf("(and (bvsge %s %s) (bvslt %s %s))", s.t, bvLit(uint64(lo), w), s.t, bvLit(uint64(hi), w))
	} else {
		l := lo
		if l < 0 {
			l = 0
		}
		inr = fmt.Sprintf("(and (bvuge %s %s) (bvult %s %s))", s.t, bvLit(uint64(l), w), s.t, bvLit(uint64(hi), w))
	}
	if hi <= lo {
		inr = "false"
	}
	if hi > lo && i.decide(inr, site+":inrange") {
		if hi-lo == 1 {
			return lo
		}
		return i.signedOf(s, i.concretizeAux(s, site))
	}
	// out of range: one representative
	_ = e
	mv, ok2 := i.modelValue(s.t)
	if !ok2 {
		return hi
	}
	return i.signedOf(s, mv)
}

func (i *interpreter) concretizeAux(s sym, site string) uint64 {
	// Aux in decisions stores v+1; undo here
	e := i.ex
	w := kindWidth(s.k)
	for n := 0; ; n++ {
		if n > 4096 {
			panic(engineAbort{kind: abortTruncated, msg: "concretize: more than 4096 values at " + site})
		}
		var v uint64
		known := false
		if e.replaying() {
			v = e.prefix[e.pos].Aux - 1
		} else {
			mv, ok := i.modelValue(s.t)
			if !ok {
				panic(engineAbort{kind: abortSolver, msg: "no model in concretize at " + site})
			}
			v = mv
			known = true
		}
		if i.decideAux(app("=", s.t, bvLit(v, w)), site, v+1, known) {
			return v
		}
	}
}

func (i *interpreter) signedOf(s sym, v uint64) int64 {
	w := kindWidth(s.k)
	if kindSigned(s.k) && w < 64 {
		sh := uint(64 - w)
		return int64(v<<sh) >> sh
	}
	return int64(v)
}

// concSize makes a symbolic allocation size concrete (size rule of DESIGN 2.2).
func (i *interpreter) concSize(x value, site string) int64 {
	s, ok := x.(sym)
	if !ok {
		return asInt64(x)
	}
	w := kindWidth(s.k)
	const ceiling = 1 << 40
	var over string
	if kindSigned(s.k) {
		over = fmt.Sprintf("(or (bvslt %s %s) (bvsgt %s %s))", s.t, bvLit(0, w), s.t, bvLit(ceiling, w))
	} else {
		over = fmt.Sprintf("(bvugt %s %s)", s.t, bvLit(ceiling, w))
	}
	if w > 40 && i.decide(over, site+":oversize") {
		i.allocEvent(site, -1)
		panic(rtErr("makeslice: len out of range"))
	}
	smallN := i.smallSize()
	if w <= 8 {
		smallN = 1 << 9 // a byte-sized size is always enumerated
	}
	if w < 64 && smallN >= int64(1)<<uint(w) {
		return int64(i.concretizeAux(s, site))
	}
	small := fmt.Sprintf("(bvule %s %s)", s.t, bvLit(uint64(smallN), w))
	if i.decide(small, site+":small") {
		return int64(i.concretizeAux(s, site))
	}
	// mid range: above the allocation budget is an allocation-monitor event;
	// between smallN and the budget one representative stands for all sizes
	// (the loop/fill of that length behaves uniformly).
	if b := i.job().allocBudget; b > 0 && (w >= 63 || b < int64(1)<<uint(w)-1) {
		ab := fmt.Sprintf("(bvugt %s %s)", s.t, bvLit(uint64(b), w))
		if i.decide(ab, site+":overbudget") {
			i.allocEvent(site, b+1)
			panic(engineAbort{kind: abortDone, msg: "allocation above budget"})
		}
	}
	rep := uint64(smallN + 1)
	if !i.decide(app("=", s.t, bvLit(rep, w)), site+":midrep") {
		i.job().note(fmt.Sprintf("sizes in (%d, budget] at %s represented by %d", smallN, site, rep))
		panic(engineAbort{kind: abortDone, msg: "mid-range size represented elsewhere"})
	}
	return int64(rep)
}

func (i *interpreter) smallSize() int64 {
	if i.jb != nil && i.jb.Spec.SmallSize > 0 {
		return i.jb.Spec.SmallSize
	}
	return 64
}

// ---------------------------------------------------------------------------
// witnesses

func (e *explorer) snapshotInputs() ([]Input, bool) {
	var terms []string
	for _, in := range e.inputs {
		if in.Term != "" {
			terms = append(terms, in.Term)
		}
	}
	out := make([]Input, len(e.inputs))
	copy(out, e.inputs)
	if len(terms) > 0 {
		vals, err := e.s.GetValues(terms)
		if err != nil {
			return nil, false
		}
		k := 0
		for j := range out {
			if out[j].Term != "" {
				u, ok := parseBV(vals[k])
				if !ok {
					return nil, false
				}
				out[j].Value = u
				k++
			}
		}
	}
	return out, true
}

// witnessUnder produces a witness for pc ∧ extra (extra may be "").
func (i *interpreter) witnessUnder(extra, event, id, detail string) (*Witness, string) {
	e := i.ex
	e.s.Push()
	defer e.s.Pop()
	if extra != "" {
		e.s.Send("(assert " + extra + ")")
	}
	r := e.s.CheckSat()
	if r != "sat" {
		return nil, r
	}
	ins, ok := e.snapshotInputs()
	if !ok {
		return nil, "unknown"
	}
	w := &Witness{
		Pkg: i.jb.Spec.Pkg, Harness: i.jb.Spec.Func, Params: i.jb.Spec.Params,
		Event: event, ID: id, Inputs: ins, Decisions: e.decisionString(), Detail: detail,
	}
	if len(e.known) > 0 {
		w.Known = append([]string{}, e.known...)
		sort.Strings(w.Known)
	}
	return w, "sat"
}
