package interp

import (
	"fmt"
	"go/token"
	"go/types"
	"os"
	"path/filepath"
	"runtime"
	"runtime/debug"
	"sort"
	"strings"
	"sync"
	"time"

	"golang.org/x/tools/go/packages"
	"golang.org/x/tools/go/ssa"
	"golang.org/x/tools/go/ssa/ssautil"
)

// Program is the SSA of /repo (with harness overlay), loaded once per run.
type Program struct {
	Prog     *ssa.Program
	Pkgs     map[string]*ssa.Package
	Sizes    types.Sizes
	LoadTime time.Duration
	Repo     string
	Module   string
	Overlay  map[string]string // virtual path -> real path (for go test -overlay)

	runtimeErrorString types.Type
	reflectOnce        sync.Once
	rtypeMethods       methodSet
	errorMethods       methodSet
	reflectPackage     *ssa.Package
	sched              *scheduler
	snap               *snapshot
	InitSteps          int64
	fmtState           types.Type // verifrt.FmtState, if loaded
}

// Load builds SSA for the given import paths of the module rooted at repo,
// with every file under harnessDir/<import path>/ overlaid into the package
// directory.
func Load(repo, module, harnessDir string, pkgPaths []string) (*Program, error) {
	t0 := time.Now()
	overlay := map[string][]byte{}
	ovReal := map[string]string{}
	err := filepath.Walk(harnessDir, func(p string, info os.FileInfo, err error) error {
		if err != nil || info.IsDir() || !strings.HasSuffix(p, ".go") {
			return err
		}
		rel, _ := filepath.Rel(harnessDir, p)
		if !strings.HasPrefix(rel, module) {
			return nil
		}
		virt := filepath.Join(repo, strings.TrimPrefix(rel, module))
		b, err := os.ReadFile(p)
		if err != nil {
			return err
		}
		overlay[virt] = b
		ovReal[virt] = p
		return nil
	})
	if err != nil {
		return nil, err
	}
	cfg := &packages.Config{
		Mode:       packages.LoadAllSyntax,
		Dir:        repo,
		BuildFlags: []string{"-tags=verif"},
		Overlay:    overlay,
		Env:        append(os.Environ(), "GOFLAGS=-mod=mod", "GOPROXY=off", "GOSUMDB=off", "GOTOOLCHAIN=local"),
	}
	initial, err := packages.Load(cfg, pkgPaths...)
	if err != nil {
		return nil, err
	}
	var errs []string
	packages.Visit(initial, nil, func(p *packages.Package) {
		for _, e := range p.Errors {
			errs = append(errs, e.Error())
		}
	})
	if len(errs) > 0 {
		if len(errs) > 12 {
			errs = errs[:12]
		}
		return nil, fmt.Errorf("load errors:\n%s", strings.Join(errs, "\n"))
	}
	prog, _ := ssautil.AllPackages(initial, ssa.InstantiateGenerics)
	prog.Build()
	P := &Program{Prog: prog, Pkgs: map[string]*ssa.Package{}, Repo: repo, Module: module, Overlay: ovReal}
	for _, p := range prog.AllPackages() {
		P.Pkgs[p.Pkg.Path()] = p
	}
	P.Sizes = types.SizesFor("gc", "amd64")
	rt := prog.ImportedPackage("runtime")
	if rt == nil {
		return nil, fmt.Errorf("runtime package not loaded")
	}
	P.runtimeErrorString = rt.Type("errorString").Object().Type()
	initReflectProg(P)
	if vp := P.Pkgs[module+"/internal/verifrt"]; vp != nil {
		if tn := vp.Type("FmtState"); tn != nil {
			P.fmtState = tn.Type()
		}
	}
	snap, err := P.buildSnapshot()
	if err != nil {
		return nil, err
	}
	P.snap = snap
	P.InitSteps = snap.steps
	P.LoadTime = time.Since(t0)
	return P, nil
}

// JobSpec describes one harness exploration.
type JobSpec struct {
	Pkg             string
	Func            string
	Params          map[string]int64
	MaxPaths        int
	MaxSteps        int64 // per path
	SolverTimeoutMs int
	SmallSize       int64
	Label           string
	MaxWallMs       int64 // wall limit of one path; the job stops exploring new paths after three times this
}

func (s JobSpec) Name() string {
	n := s.Func
	if len(s.Params) > 0 {
		var ks []string
		for k := range s.Params {
			ks = append(ks, k)
		}
		sort.Strings(ks)
		var ps []string
		for _, k := range ks {
			ps = append(ps, fmt.Sprintf("%s=%d", k, s.Params[k]))
		}
		n += "[" + strings.Join(ps, ",") + "]"
	}
	return n
}

// Job holds exploration state and results of one JobSpec.
type Job struct {
	Spec JobSpec
	P    *Program

	mu       sync.Mutex
	queue    [][]decision
	inflight int

	Paths          int
	Completed      int // paths that ran to the end of the harness
	AssumeEnded    int
	Truncated      int
	TruncatedMsgs  map[string]int
	TruncatedKnown map[string]int // paths cut by the wall limit under active known-finding labels
	Unsupported    map[string]int
	Decisions      int64
	Steps          int64
	Asserts        int
	Discharged     int
	unknownFeas    int
	UnknownAssert  int
	Fails          []*Witness
	Reached        map[string]*Witness
	Panics         []*Witness
	TruncWitness   []*Witness
	AllocEvents    []*Witness
	Notes          map[string]int
	Funcs          map[string]bool
	Models         map[string]int
	Queries        int
	SolverSat      int
	SolverUnsat    int
	SolverUnknown  int
	SolverTime     time.Duration
	SolverErrors   []string
	Wall           time.Duration
	pathLimitHit   bool
	wallLimitHit   bool
	started        time.Time
	allocBudget    int64
	start          time.Time
}

func (j *Job) countDecision() { j.mu.Lock(); j.Decisions++; j.mu.Unlock() }
func (j *Job) note(s string) {
	j.mu.Lock()
	if j.Notes == nil {
		j.Notes = map[string]int{}
	}
	j.Notes[s]++
	j.mu.Unlock()
}
func (j *Job) enqueue(p []decision) {
	j.mu.Lock()
	j.queue = append(j.queue, p)
	j.mu.Unlock()
	j.P.sched.wake()
}

// Inconclusive reports why the job's result is not a full verdict ("" if it is).
func (j *Job) Inconclusive() []string {
	var r []string
	if j.Truncated > 0 {
		var ms []string
		for m, n := range j.TruncatedMsgs {
			ms = append(ms, fmt.Sprintf("%s x%d", m, n))
		}
		sort.Strings(ms)
		r = append(r, fmt.Sprintf("%d truncated paths (%s)", j.Truncated, strings.Join(ms, "; ")))
	}
	if len(j.Unsupported) > 0 {
		var ms []string
		for m, n := range j.Unsupported {
			ms = append(ms, fmt.Sprintf("%s x%d", m, n))
		}
		sort.Strings(ms)
		r = append(r, "unsupported: "+strings.Join(ms, "; "))
	}
	if j.pathLimitHit {
		r = append(r, fmt.Sprintf("path limit %d hit", j.Spec.MaxPaths))
	}
	if j.wallLimitHit {
		r = append(r, fmt.Sprintf("wall-time limit 3x%d ms hit after %d paths", j.Spec.MaxWallMs, j.Paths))
	}
	if j.UnknownAssert > 0 {
		r = append(r, fmt.Sprintf("%d assertion queries answered unknown", j.UnknownAssert))
	}
	if len(j.SolverErrors) > 0 {
		r = append(r, "solver errors: "+j.SolverErrors[0])
	}
	return r
}

// ---------------------------------------------------------------------------
// scheduler: a pool of workers, each with its own solver, pulling (job, prefix)

type scheduler struct {
	mu   sync.Mutex
	cond *sync.Cond
	jobs []*Job
	done bool
}

func (s *scheduler) wake() {
	if s == nil {
		return
	}
	s.mu.Lock()
	s.cond.Broadcast()
	s.mu.Unlock()
}

// RunJobs explores all specs with the given number of workers.
func (P *Program) RunJobs(specs []JobSpec, workers int, solverKind string) []*Job {
	jobs := make([]*Job, len(specs))
	for k, sp := range specs {
		if sp.MaxPaths == 0 {
			sp.MaxPaths = 20000
		}
		if sp.MaxSteps == 0 {
			sp.MaxSteps = 20_000_000
		}
		if sp.SolverTimeoutMs == 0 {
			sp.SolverTimeoutMs = 20000
		}
		jobs[k] = &Job{Spec: sp, P: P, Reached: map[string]*Witness{}, TruncatedMsgs: map[string]int{},
			Unsupported: map[string]int{}, Funcs: map[string]bool{}, Models: map[string]int{}, start: time.Now()}
		jobs[k].queue = [][]decision{nil}
	}
	sch := &scheduler{jobs: jobs}
	sch.cond = sync.NewCond(&sch.mu)
	P.sched = sch
	var wg sync.WaitGroup
	for w := 0; w < workers; w++ {
		wg.Add(1)
		go func() {
			defer wg.Done()
			var sol *Solver
			var solTO int
			n := 0
			defer func() { sol.Close() }()
			for {
				j, prefix := sch.next()
				if j == nil {
					return
				}
				if sol == nil || sol.Dead || solTO != j.Spec.SolverTimeoutMs || n%300 == 299 {
					sol.Close()
					var err error
					sol, err = NewSolver(solverKind, j.Spec.SolverTimeoutMs)
					if err != nil {
						panic(err)
					}
					solTO = j.Spec.SolverTimeoutMs
				}
				n++
				j.runPath(sol, prefix)
				sch.finish(j)
			}
		}()
	}
	wg.Wait()
	return jobs
}

func (s *scheduler) next() (*Job, []decision) {
	s.mu.Lock()
	defer s.mu.Unlock()
	for {
		busy := false
		for _, j := range s.jobs {
			j.mu.Lock()
			if len(j.queue) > 0 {
				if j.Paths >= j.Spec.MaxPaths {
					j.pathLimitHit = true
					j.queue = nil
					j.mu.Unlock()
					continue
				}
				if j.started.IsZero() {
					j.started = time.Now()
				}
				// (a single path may take MaxWallMs; the job as a whole three times that)
				if j.Spec.MaxWallMs > 0 && time.Since(j.started) > 3*time.Duration(j.Spec.MaxWallMs)*time.Millisecond {
					j.wallLimitHit = true
					j.queue = nil
					j.mu.Unlock()
					continue
				}
				p := j.queue[len(j.queue)-1]
				j.queue = j.queue[:len(j.queue)-1]
				j.inflight++
				j.Paths++
				j.mu.Unlock()
				return j, p
			}
			if j.inflight > 0 {
				busy = true
			}
			j.mu.Unlock()
		}
		if !busy {
			s.cond.Broadcast()
			return nil, nil
		}
		s.cond.Wait()
	}
}

func (s *scheduler) finish(j *Job) {
	j.mu.Lock()
	j.inflight--
	if j.inflight == 0 && len(j.queue) == 0 {
		j.Wall = time.Since(j.start)
		if !j.started.IsZero() {
			j.Wall = time.Since(j.started)
		}
	}
	j.mu.Unlock()
	s.wake()
}

// runPath executes the harness once along prefix.
func (j *Job) runPath(sol *Solver, prefix []decision) {
	q0, s0, u0, k0, t0 := sol.Queries, sol.Sat, sol.Unsat, sol.Unknown, sol.Time
	e0 := len(sol.Errors)
	base := sol.depth
	sol.Push()
	i := newInterpreter(j.P)
	i.jb = j
	i.maxSteps = j.Spec.MaxSteps
	if j.Spec.MaxWallMs > 0 {
		// a single path may use the job's whole wall budget, not more
		i.deadline = time.Now().Add(time.Duration(j.Spec.MaxWallMs) * time.Millisecond)
	}
	e := &explorer{job: j, s: sol, prefix: prefix, reached: map[string]bool{}}
	i.ex = e

	outcome := "completed"
	var detail string
	func() {
		defer func() {
			r := recover()
			if r == nil {
				return
			}
			switch r := r.(type) {
			case engineAbort:
				switch r.kind {
				case abortAssume:
					outcome = "assume"
				case abortDone:
					outcome = "done"
				case abortTruncated:
					outcome, detail = "truncated", r.msg
				case abortUnsupported:
					outcome, detail = "unsupported", r.msg
				case abortSolver:
					outcome, detail = "unsupported", "solver: "+r.msg
				}
			case targetPanic:
				outcome, detail = "panic", i.describePanic(r.v)
			case runtime.Error:
				if isEngineBug(r) {
					outcome, detail = "unsupported", "engine: "+r.Error()+"\n"+string(debug.Stack())
				} else {
					outcome, detail = "panic", r.Error()
					if os.Getenv("SYMGO_STACK") != "" {
						detail += "\n" + string(debug.Stack())
					}
				}
			case string:
				outcome, detail = "panic", r
			default:
				outcome, detail = "unsupported", fmt.Sprintf("engine panic %T: %v\n%s", r, r, debug.Stack())
			}
		}()
		pkg := j.P.Pkgs[j.Spec.Pkg]
		if pkg == nil {
			panic(engineAbort{kind: abortUnsupported, msg: "package not loaded: " + j.Spec.Pkg})
		}
		fn := pkg.Func(j.Spec.Func)
		if fn == nil {
			panic(engineAbort{kind: abortUnsupported, msg: "harness function not found: " + j.Spec.Func})
		}
		i.globals, i.side = j.P.snap.clone(j.P)
		i.inHarness = true
		call(i, nil, token.NoPos, fn, nil)
	}()
	i.killThreads()

	var pw *Witness
	var truncKnown []string
	if outcome == "truncated" || outcome == "unsupported" {
		if tw, r := i.witnessUnder("", "truncated", outcome, detail); r == "sat" && tw != nil {
			j.mu.Lock()
			if len(j.TruncWitness) < 3 {
				j.TruncWitness = append(j.TruncWitness, tw)
			}
			j.mu.Unlock()
			if outcome == "truncated" && detail == "path wall limit" {
				truncKnown = tw.Known
			}
		}
	}
	if outcome == "panic" {
		// a panic escaping the harness is a failure event
		pw, _ = i.witnessUnder("", "panic", "escaped-panic", detail)
	}
	sol.PopTo(base)

	j.mu.Lock()
	defer j.mu.Unlock()
	j.Steps += i.steps
	j.Asserts += e.asserts
	j.Discharged += e.discharged
	j.Queries += sol.Queries - q0
	j.SolverSat += sol.Sat - s0
	j.SolverUnsat += sol.Unsat - u0
	j.SolverUnknown += sol.Unknown - k0
	j.SolverTime += sol.Time - t0
	if len(sol.Errors) > e0 && len(j.SolverErrors) < 5 {
		j.SolverErrors = append(j.SolverErrors, sol.Errors[e0:]...)
	}
	for f := range i.funcs {
		j.Funcs[f] = true
	}
	for m, n := range i.models {
		j.Models[m] += n
	}
	for _, n := range e.notes {
		if j.Notes == nil {
			j.Notes = map[string]int{}
		}
		j.Notes[n]++
	}
	for _, w := range e.events {
		w := w
		switch w.Event {
		case "fail":
			j.Fails = append(j.Fails, &w)
		case "reach":
			if _, ok := j.Reached[w.ID]; !ok {
				j.Reached[w.ID] = &w
			}
		case "alloc":
			j.AllocEvents = append(j.AllocEvents, &w)
		}
	}
	switch outcome {
	case "completed", "done":
		j.Completed++
	case "assume":
		j.AssumeEnded++
	case "truncated":
		if len(truncKnown) > 0 {
			// the path ran into its wall limit while a known-finding label was
			// active (e.g. a call whose count argument makes it loop for ever):
			// counted under the finding, which the driver checks to be open
			if j.TruncatedKnown == nil {
				j.TruncatedKnown = map[string]int{}
			}
			j.TruncatedKnown[strings.Join(truncKnown, ",")]++
			break
		}
		j.Truncated++
		j.TruncatedMsgs[detail]++
	case "unsupported":
		if len(detail) > 600 {
			detail = detail[:600]
		}
		j.Unsupported[detail]++
	case "panic":
		j.Completed++
		if pw != nil {
			j.Panics = append(j.Panics, pw)
		} else {
			j.Unsupported["panic without model: "+detail]++
		}
	}
}

func isEngineBug(r runtime.Error) bool {
	if _, ok := r.(*runtime.TypeAssertionError); ok {
		return true
	}
	if _, ok := r.(rtErr); ok {
		return false
	}
	return false
}
