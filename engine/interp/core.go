package interp

// symgo core: per-path interpreter construction, call policy, symbolic-aware
// wrappers around the stock interpreter operations, symbolic strings.

import (
	"fmt"
	"unsafe"
	"go/token"
	"go/types"
	"strings"

	"golang.org/x/tools/go/ssa"
)

func mustDeref(t types.Type) types.Type {
	if p, ok := t.Underlying().(*types.Pointer); ok {
		return p.Elem()
	}
	panic(fmt.Sprintf("mustDeref: %v is not a pointer", t))
}

func newInterpreter(P *Program) *interpreter {
	i := &interpreter{
		prog:               P.Prog,
		globals:            make(map[*ssa.Global]*value),
		sizes:              P.Sizes,
		goroutines:         1,
		P:                  P,
		funcs:              map[string]bool{},
		models:             map[string]int{},
		side:               map[*value]interface{}{},
		runtimeErrorString: P.runtimeErrorString,
		reflectPackage:     P.reflectPackage,
		rtypeMethods:       P.rtypeMethods,
		errorMethods:       P.errorMethods,
	}
	return i
}

func (i *interpreter) job() *Job { return i.jb }

func (fr *frame) site(instr ssa.Instruction) string {
	// position-independent site id: function name, block index, instr index in block
	b := instr.Block()
	for k, in := range b.Instrs {
		if in == instr {
			return fmt.Sprintf("%s#%d.%d", fr.fn.String(), b.Index, k)
		}
	}
	return fr.fn.String()
}

// deny-listed packages: never interpreted from their own SSA; need a model.
var deniedPkgs = map[string]bool{
	"fmt": true, "reflect": true, "internal/reflectlite": true, "sync": true, "sync/atomic": true,
	"runtime": true, "os": true, "time": true, "internal/bytealg": true, "unsafe": true,
	"encoding/gob": true, "encoding/json": true, "syscall": true,
	"log": true, "os/signal": true, "os/exec": true, "net": true, "io/fs": true,
	"runtime/debug": true, "testing": true, "flag": true, "bufio": false, "math/rand": true, "hash/crc32": true,
	"crypto/rand": true, "math/big": true, "io/ioutil": true, "text/tabwriter": true, "regexp": true,
	"github.com/peterh/liner": true,
}

// packages whose init is skipped although their functions are interpreted.
var skipInitPkgs = map[string]bool{
	"errors": true, "context": false, "io": false, "unicode": false,
}

func pkgDenied(path string) bool {
	if deniedPkgs[path] {
		return true
	}
	if strings.HasPrefix(path, "internal/") && path != "internal/itoa" && path != "internal/stringslite" && path != "internal/byteorder" && path != "internal/filepathlite" {
		return true
	}
	if strings.HasPrefix(path, "runtime/") || strings.HasPrefix(path, "vendor/") || strings.HasPrefix(path, "crypto/") {
		return true
	}
	return false
}

func fnPkgPath(fn *ssa.Function) string {
	if fn.Pkg != nil {
		return fn.Pkg.Pkg.Path()
	}
	if o := fn.Origin(); o != nil && o.Pkg != nil {
		return o.Pkg.Pkg.Path()
	}
	if fn.Object() != nil && fn.Object().Pkg() != nil {
		return fn.Object().Pkg().Path()
	}
	// wrappers/thunks/bounds: use receiver's package
	if fn.Signature.Recv() != nil {
		t := fn.Signature.Recv().Type()
		if p, ok := t.(*types.Pointer); ok {
			t = p.Elem()
		}
		if n, ok := t.(*types.Named); ok && n.Obj().Pkg() != nil {
			return n.Obj().Pkg().Path()
		}
	}
	return ""
}

// policy decides whether top-level function fn is skipped (with result res).
func (i *interpreter) policy(fn *ssa.Function, name string) (skip bool, res value) {
	path := fnPkgPath(fn)
	isInit := fn.Name() == "init" || strings.HasPrefix(fn.Name(), "init#")
	if strings.HasPrefix(path, i.P.Module) {
		if i.inHarness && fn.Synthetic == "" {
			i.funcs[name] = true
		}
		return false, nil
	}
	if pkgDenied(path) {
		if isInit {
			return true, nil
		}
		if fn.Synthetic != "" && fn.Blocks != nil {
			// wrapper/thunk/bound method: run it, the real callee is checked in turn
			return false, nil
		}
		panic(engineAbort{kind: abortUnsupported, msg: "no model for " + name})
	}
	if isInit && skipInitPkgs[path] {
		return true, nil
	}
	return false, nil
}

// initPackages runs the package initialiser of pkg (and, through it, of its
// dependencies, subject to the policy).
func (i *interpreter) initPackages(pkg *ssa.Package) {
	if f := pkg.Func("init"); f != nil {
		call(i, nil, token.NoPos, f, nil)
	}
}

func (i *interpreter) describePanic(v value) string {
	switch v := v.(type) {
	case iface:
		if v.t == nil {
			return "panic(nil)"
		}
		if s, ok := v.v.(string); ok {
			return fmt.Sprintf("%s(%q)", v.t, s)
		}
		// error values: try Error() (LookupMethod panics for types without it)
		var m *ssa.Function
		func() {
			defer func() { recover() }()
			m = i.prog.LookupMethod(v.t, nil, "Error")
		}()
		if m != nil {
			func() {
				defer func() { recover() }()
				if r, ok := call(i, nil, token.NoPos, m, []value{v.v}).(string); ok {
					v = iface{t: v.t, v: r}
				}
			}()
			if s, ok := v.v.(string); ok {
				return fmt.Sprintf("%s: %s", v.t, s)
			}
		}
		return fmt.Sprintf("%s %s", v.t, toString(v.v))
	}
	return toString(v)
}

// ---------------------------------------------------------------------------
// symbolic strings

// sstr is a string of concrete length whose bytes may be symbolic.
type sstr struct{ b []value }

func strBytes(v value) ([]value, bool) {
	switch v := v.(type) {
	case string:
		b := make([]value, len(v))
		for k := 0; k < len(v); k++ {
			b[k] = v[k]
		}
		return b, true
	case sstr:
		return v.b, true
	}
	return nil, false
}

// normStr collapses an all-concrete byte sequence into a Go string.
func normStr(b []value) value {
	for _, e := range b {
		if _, ok := e.(uint8); !ok {
			return sstr{b: b}
		}
	}
	bs := make([]byte, len(b))
	for k, e := range b {
		bs[k] = e.(uint8)
	}
	return string(bs)
}

func andTerms(ts []string) string {
	switch len(ts) {
	case 0:
		return "true"
	case 1:
		return ts[0]
	}
	return "(and " + strings.Join(ts, " ") + ")"
}

func (i *interpreter) strEq(xb, yb []value) value {
	if len(xb) != len(yb) {
		return false
	}
	var ts []string
	for k := range xb {
		xs, ys := isSym(xb[k]), isSym(yb[k])
		if !xs && !ys {
			if xb[k].(uint8) != yb[k].(uint8) {
				return false
			}
			continue
		}
		ts = append(ts, app("=", termOf(xb[k]), termOf(yb[k])))
	}
	if len(ts) == 0 {
		return true
	}
	return i.mkSym(types.Bool, andTerms(ts))
}

// strLess builds x < y (strict) or x <= y lexicographically.
func (i *interpreter) strLess(xb, yb []value, orEq bool) value {
	n := len(xb)
	if len(yb) < n {
		n = len(yb)
	}
	// base: after common prefix
	var base bool
	if orEq {
		base = len(xb) <= len(yb)
	} else {
		base = len(xb) < len(yb)
	}
	var acc value = base
	for k := n - 1; k >= 0; k-- {
		a, b := xb[k], yb[k]
		if !isSym(a) && !isSym(b) {
			av, bv := a.(uint8), b.(uint8)
			if av < bv {
				acc = true
			} else if av > bv {
				acc = false
			}
			continue
		}
		ta, tb := termOf(a), termOf(b)
		acc = i.mkSym(types.Bool, fmt.Sprintf("(ite (bvult %s %s) true (ite (= %s %s) %s false))", ta, tb, ta, tb, termOf(acc)))
	}
	return acc
}

func (i *interpreter) not(v value) value {
	if b, ok := v.(bool); ok {
		return !b
	}
	return i.mkSym(types.Bool, app("not", v.(sym).t))
}

func (i *interpreter) strBinop(op token.Token, x, y value) value {
	xb, _ := strBytes(x)
	yb, _ := strBytes(y)
	switch op {
	case token.ADD:
		r := make([]value, 0, len(xb)+len(yb))
		r = append(append(r, xb...), yb...)
		return normStr(r)
	case token.EQL:
		return i.strEq(xb, yb)
	case token.NEQ:
		return i.not(i.strEq(xb, yb))
	case token.LSS:
		return i.strLess(xb, yb, false)
	case token.LEQ:
		return i.strLess(xb, yb, true)
	case token.GTR:
		return i.strLess(yb, xb, false)
	case token.GEQ:
		return i.strLess(yb, xb, true)
	}
	panic(engineAbort{kind: abortUnsupported, msg: "strBinop " + op.String()})
}

// hasSym reports whether a (non-pointer) value contains a symbolic scalar.
func hasSym(v value) bool {
	switch v := v.(type) {
	case sym, sstr:
		return true
	case iface:
		return hasSym(v.v)
	case structure:
		for _, e := range v {
			if hasSym(e) {
				return true
			}
		}
	case array:
		for _, e := range v {
			if hasSym(e) {
				return true
			}
		}
	}
	return false
}

// symEquals is Go's == on values that may contain symbolic scalars; it
// returns a bool or a symbolic Bool.
func (i *interpreter) symEquals(t types.Type, x, y value) value {
	switch xv := x.(type) {
	case sym:
		return i.symBinop(token.EQL, x, y)
	case sstr:
		return i.strBinop(token.EQL, x, y)
	case iface:
		yv := y.(iface)
		if !sameType(xv.t, yv.t) {
			return false
		}
		if xv.t == nil {
			return true
		}
		return i.symEquals(xv.t, xv.v, yv.v)
	case structure:
		yv := y.(structure)
		st := t.Underlying().(*types.Struct)
		var acc []value
		for k := range xv {
			if st.Field(k).Anonymous() && false {
				continue
			}
			acc = append(acc, i.symEquals(st.Field(k).Type(), xv[k], yv[k]))
		}
		return i.andValues(acc)
	case array:
		yv := y.(array)
		et := t.Underlying().(*types.Array).Elem()
		var acc []value
		for k := range xv {
			acc = append(acc, i.symEquals(et, xv[k], yv[k]))
		}
		return i.andValues(acc)
	}
	switch y.(type) {
	case sym:
		return i.symBinop(token.EQL, x, y)
	case sstr:
		return i.strBinop(token.EQL, x, y)
	}
	return equals(t, x, y)
}

func (i *interpreter) andValues(vs []value) value {
	var ts []string
	for _, v := range vs {
		switch v := v.(type) {
		case bool:
			if !v {
				return false
			}
		case sym:
			ts = append(ts, v.t)
		}
	}
	if len(ts) == 0 {
		return true
	}
	return i.mkSym(types.Bool, andTerms(ts))
}

// ---------------------------------------------------------------------------
// wrappers around the stock operations

func (i *interpreter) binop(op token.Token, t types.Type, x, y value) value {
	switch x.(type) {
	case sym:
		return i.symBinop(op, x, y)
	case sstr:
		return i.strBinop(op, x, y)
	}
	switch y.(type) {
	case sym:
		return i.symBinop(op, x, y)
	case sstr:
		return i.strBinop(op, x, y)
	}
	if op == token.EQL || op == token.NEQ {
		switch x.(type) {
		case iface, structure, array:
			if hasSym(x) || hasSym(y) {
				r := i.symEquals(t, x, y)
				if op == token.NEQ {
					return i.not(r)
				}
				return r
			}
		}
	}
	return binop(op, t, x, y)
}

func (i *interpreter) unop(instr *ssa.UnOp, x value) value {
	if s, ok := x.(sym); ok {
		return i.symUnop(instr.Op, s)
	}
	if instr.Op == token.ARROW {
		return i.chanRecv(instr, x)
	}
	return unop(instr, x)
}

func basicKindOf(t types.Type) (types.BasicKind, bool) {
	b, ok := t.Underlying().(*types.Basic)
	if !ok {
		return 0, false
	}
	k := b.Kind()
	switch k {
	case types.UntypedInt:
		k = types.Int
	case types.UntypedRune:
		k = types.Int32
	case types.UntypedFloat:
		k = types.Float64
	case types.UntypedBool:
		k = types.Bool
	}
	return k, true
}

func (i *interpreter) conv(t_dst, t_src types.Type, x value) value {
	switch xv := x.(type) {
	case sym:
		dk, ok := basicKindOf(t_dst)
		if ok && dk == types.String {
			// string(rune): encode via the real utf8.AppendRune
			r := i.symConv(types.Int32, xv)
			bs := i.callByName("unicode/utf8", "AppendRune", []value{[]value(nil), r}).([]value)
			return normStr(bs)
		}
		if !ok || !(kindIsInt(dk) || kindIsFloat(dk) || dk == types.Bool) {
			panic(engineAbort{kind: abortUnsupported, msg: fmt.Sprintf("conv sym %v -> %v", t_src, t_dst)})
		}
		return i.symConv(dk, xv)
	case sstr:
		switch ut := t_dst.Underlying().(type) {
		case *types.Basic:
			if ut.Kind() == types.String {
				return x
			}
		case *types.Slice:
			switch ut.Elem().Underlying().(*types.Basic).Kind() {
			case types.Byte:
				return append([]value{}, xv.b...)
			case types.Rune:
				var res []value
				for off := 0; off < len(xv.b); {
					r, n := i.decodeRune(xv, off)
					res = append(res, r)
					off += n
				}
				return res
			}
		}
		panic(engineAbort{kind: abortUnsupported, msg: fmt.Sprintf("conv sstr -> %v", t_dst)})
	case []value:
		// []byte / []rune -> string with symbolic elements
		if b, ok := t_dst.Underlying().(*types.Basic); ok && b.Kind() == types.String {
			anySym := false
			for _, e := range xv {
				if isSym(e) {
					anySym = true
					break
				}
			}
			if anySym {
				ek := t_src.Underlying().(*types.Slice).Elem().Underlying().(*types.Basic).Kind()
				if ek == types.Byte {
					return sstr{b: append([]value{}, xv...)}
				}
				var out []value
				for _, r := range xv {
					out = i.callByName("unicode/utf8", "AppendRune", []value{out, r}).([]value)
				}
				return normStr(out)
			}
		}
	}
	return conv(t_dst, t_src, x)
}

// callByName calls a package-level function of a loaded package.
func (i *interpreter) callByName(pkg, fn string, args []value) value {
	p := i.P.Pkgs[pkg]
	if p == nil {
		panic(engineAbort{kind: abortUnsupported, msg: "package not loaded: " + pkg})
	}
	f := p.Func(fn)
	if f == nil {
		panic(engineAbort{kind: abortUnsupported, msg: "function not found: " + pkg + "." + fn})
	}
	return call(i, nil, token.NoPos, f, args)
}

func (i *interpreter) decodeRune(s sstr, off int) (value, int) {
	r := i.callByName("unicode/utf8", "DecodeRuneInString", []value{normStr(s.b[off:])}).(tuple)
	return r[0], int(asInt64(r[1]))
}

type sstrIter struct {
	i   *interpreter
	s   sstr
	off int
}

func (it *sstrIter) next() tuple {
	okv := make(tuple, 3)
	if it.off >= len(it.s.b) {
		okv[0] = false
		return okv
	}
	r, n := it.i.decodeRune(it.s, it.off)
	okv[0] = true
	okv[1] = it.off
	okv[2] = r
	it.off += n
	return okv
}

func (i *interpreter) rangeIter(x value, t types.Type) iter {
	if s, ok := x.(sstr); ok {
		return &sstrIter{i: i, s: s}
	}
	return rangeIter(x, t)
}

func (i *interpreter) slice(x, lo, hi, max value, site string) value {
	var Len, Cap int
	switch xv := x.(type) {
	case string:
		Len, Cap = len(xv), len(xv)
	case sstr:
		Len, Cap = len(xv.b), len(xv.b)
	case []value:
		Len, Cap = len(xv), cap(xv)
	case *value:
		a := (*xv).(array)
		Len, Cap = len(a), cap(a)
	}
	_ = Len
	if isSym(lo) {
		lo = int(i.concInt(lo, 0, int64(Cap)+1, site+":lo"))
	}
	if isSym(hi) {
		hi = int(i.concInt(hi, 0, int64(Cap)+1, site+":hi"))
	}
	if isSym(max) {
		max = int(i.concInt(max, 0, int64(Cap)+1, site+":max"))
	}
	if s, ok := x.(sstr); ok {
		l, h := int64(0), int64(len(s.b))
		if lo != nil {
			l = asInt64(lo)
		}
		if hi != nil {
			h = asInt64(hi)
		}
		return normStr(s.b[l:h:h])
	}
	return slice(x, lo, hi, max)
}

func (i *interpreter) makeSlice(instr *ssa.MakeSlice, ln, cp value, site string) value {
	n := i.concSize(ln, site+":len")
	c := i.concSize(cp, site+":cap")
	if n < 0 || c < n {
		panic(rtErr("makeslice: len out of range"))
	}
	if c > 1<<26 {
		// concrete huge allocation
		i.allocEvent(site, c)
		if c > 1<<32 {
			panic(rtErr("makeslice: len out of range"))
		}
		panic(engineAbort{kind: abortTruncated, msg: "concrete allocation of more than 2^26 elements"})
	}
	i.allocNote(site, c)
	s := make([]value, c)
	tElt := instr.Type().Underlying().(*types.Slice).Elem()
	for k := range s {
		s[k] = zero(tElt)
	}
	return s[:n]
}

// allocEvent records a request the allocation monitor objects to.
func (i *interpreter) allocEvent(site string, n int64) {
	if i.jb == nil || i.ex == nil {
		return
	}
	w, r := i.witnessUnder("", "alloc", "alloc-oversize", fmt.Sprintf("%s n=%d", site, n))
	if r == "sat" && w != nil {
		i.ex.events = append(i.ex.events, *w)
	}
}

func (i *interpreter) allocNote(site string, n int64) {
	if i.jb != nil && i.jb.allocBudget > 0 && n > i.jb.allocBudget {
		i.allocEvent(site, n)
	}
}

// monitorWrite is the frozen-object monitor hook.
func (i *interpreter) monitorWrite(obj interface{}) {
	if !i.freezeOn {
		return
	}
	if why, ok := i.frozen[obj]; ok {
		i.recordFail("frozen-write", "write to frozen object: "+why)
	}
}

func (i *interpreter) monitorAppend(dst []value, n int) {
	if !i.freezeOn {
		return
	}
	full := dst[:cap(dst)]
	for k := len(dst); k < len(dst)+n && k < len(full); k++ {
		i.monitorWrite(&full[k])
	}
}

func (i *interpreter) monitorCopy(dst []value, n int) {
	if !i.freezeOn {
		return
	}
	for k := 0; k < n; k++ {
		i.monitorWrite(&dst[k])
	}
}

// unsafeString implements unsafe.String(p, n) for p pointing into a []value.
func (i *interpreter) unsafeString(p *value, n int) value {
	return normStr(append([]value{}, unsafe.Slice(p, n)...))
}

// mapHint handles a (possibly symbolic) make(map, hint): the hint never
// panics in Go (negative or huge hints are ignored) but a hint that is
// honoured allocates in proportion, which the allocation monitor checks.
func (i *interpreter) mapHint(x value, site string) int64 {
	s, ok := x.(sym)
	if !ok {
		h := asInt64(x)
		if h > 0 {
			i.allocNote(site, h*16)
		}
		return 0
	}
	if b := i.jb.allocBudget; b > 0 {
		w := kindWidth(s.k)
		// honoured hints are 0 < h < 2^40 or so; above the budget is an event
		over := fmt.Sprintf("(and (bvsgt %s %s) (bvslt %s %s))", s.t, bvLit(uint64(b/16), w), s.t, bvLit(uint64(1)<<44, w))
		if w >= 48 && i.decide(over, site+":maphint") {
			i.allocEvent(site, b+1)
			panic(engineAbort{kind: abortDone, msg: "map hint above budget"})
		}
	}
	return 0
}

// symTableRead implements tbl[idx] for a symbolic idx over a table of 2..1024
// concrete scalars of one kind: out-of-range forks and panics as Go does; in
// range the result is one SMT term (run-length encoded ite chain) in a
// temporary cell, instead of one path per index value. Returns nil when the
// table is not of that shape.
func (i *interpreter) symTableRead(tbl []value, idx value, site string) *value {
	s, ok := idx.(sym)
	if !ok || len(tbl) < 2 || len(tbl) > 1024 {
		return nil
	}
	k0, ok := kindOfValue(tbl[0])
	if !ok || isSym(tbl[0]) {
		return nil
	}
	for _, e := range tbl {
		k, ok := kindOfValue(e)
		if !ok || k != k0 || isSym(e) {
			return nil
		}
	}
	w := kindWidth(s.k)
	var inr string
	n := uint64(len(tbl))
	if w < 64 && n >= uint64(1)<<uint(w) {
		inr = "true"
	} else if kindSigned(s.k) {
		inr = fmt.Sprintf("(and (bvsge %s %s) (bvslt %s %s))", s.t, bvLit(0, w), s.t, bvLit(n, w))
	} else {
		inr = fmt.Sprintf("(bvult %s %s)", s.t, bvLit(n, w))
	}
	if inr != "true" && !i.decide(inr, site+":inrange") {
		panic(rtErr(fmt.Sprintf("index out of range [%s] with length %d", s.t, len(tbl))))
	}
	// run-length encode
	term := termOf(tbl[len(tbl)-1])
	for k := len(tbl) - 2; k >= 0; k-- {
		if termOf(tbl[k]) == termOf(tbl[k+1]) {
			continue
		}
		// indexes <= k hold the value of run ending at k
		term = fmt.Sprintf("(ite (bvule %s %s) %s %s)", s.t, bvLit(uint64(k), w), "@", term)
		term = strings.Replace(term, "@", termOf(tbl[k]), 1)
	}
	// the chain above tests thresholds from the highest run boundary down,
	// so rebuild it in ascending order for correctness
	type run struct {
		hi  int
		val string
	}
	var runs []run
	for k := 0; k < len(tbl); k++ {
		v := termOf(tbl[k])
		if len(runs) > 0 && runs[len(runs)-1].val == v {
			runs[len(runs)-1].hi = k
		} else {
			runs = append(runs, run{k, v})
		}
	}
	term = runs[len(runs)-1].val
	for r := len(runs) - 2; r >= 0; r-- {
		term = fmt.Sprintf("(ite (bvule %s %s) %s %s)", s.t, bvLit(uint64(runs[r].hi), w), runs[r].val, term)
	}
	var cell value = i.mkSym(k0, term)
	if i.tempCells == nil {
		i.tempCells = map[*value]bool{}
	}
	i.tempCells[&cell] = true
	return &cell
}

func (i *interpreter) symStringRead(str string, idx value, site string) *value {
	if _, ok := idx.(sym); !ok || len(str) < 2 || len(str) > 1024 {
		return nil
	}
	tbl := make([]value, len(str))
	for k := 0; k < len(str); k++ {
		tbl[k] = str[k]
	}
	return i.symTableRead(tbl, idx, site)
}

// symTableReadAddr is symTableRead for an IndexAddr: only when every use of
// the address is a load (a store through it could not be honoured).
func (i *interpreter) symTableReadAddr(instr *ssa.IndexAddr, tbl []value, idx value, site string) *value {
	if _, ok := idx.(sym); !ok {
		return nil
	}
	refs := instr.Referrers()
	if refs == nil {
		return nil
	}
	for _, r := range *refs {
		u, ok := r.(*ssa.UnOp)
		if !ok || u.Op != token.MUL {
			return nil
		}
	}
	return i.symTableRead(tbl, idx, site)
}
