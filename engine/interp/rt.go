package interp

// Engine-side implementation of the verifrt intrinsics.

import (
	"fmt"
	"go/token"
	"go/types"
	"runtime"
)

const rtPkg = "github.com/ozanh/ugo/internal/verifrt."

func init() {
	for k, v := range map[string]externalFn{
		"Param":       rtParam,
		"Bool":        func(fr *frame, a []value) value { return fr.i.nondet(a[0].(string), "bool", types.Bool) },
		"Int64":       func(fr *frame, a []value) value { return fr.i.nondet(a[0].(string), "int64", types.Int64) },
		"Uint64":      func(fr *frame, a []value) value { return fr.i.nondet(a[0].(string), "uint64", types.Uint64) },
		"Int32":       func(fr *frame, a []value) value { return fr.i.nondet(a[0].(string), "int32", types.Int32) },
		"Uint32":      func(fr *frame, a []value) value { return fr.i.nondet(a[0].(string), "uint32", types.Uint32) },
		"Uint16":      func(fr *frame, a []value) value { return fr.i.nondet(a[0].(string), "uint16", types.Uint16) },
		"Byte":        func(fr *frame, a []value) value { return fr.i.nondet(a[0].(string), "uint8", types.Uint8) },
		"Int":         func(fr *frame, a []value) value { return fr.i.nondet(a[0].(string), "int", types.Int) },
		"Float64Bits": rtFloat64Bits,
		"Choice":      rtChoice,
		"Bytes":       rtBytes,
		"String":      func(fr *frame, a []value) value { return normStr(rtBytes(fr, a).([]value)) },
		"Assume":      rtAssume,
		"Assert":      rtAssert,
		"AssertMsg":   rtAssert,
		"Reached":     rtReached,
		"Known":       rtKnown,
		"ClearKnown":  func(fr *frame, a []value) value { fr.i.ex.known = nil; return nil },
		"NoPanic":     rtNoPanic,
		"Bounded":     rtBounded,
		"Note":        rtNote,
		"AllocBudget": func(fr *frame, a []value) value { fr.i.jb.allocBudget = asInt64(a[0]); return nil },
		"Freeze":      rtFreeze,
		"Unfreeze":    func(fr *frame, a []value) value { fr.i.freezeOn = false; return nil },
		"Symbolic":    func(fr *frame, a []value) value { return true },
	} {
		externals[rtPkg+k] = v
	}
}

func rtParam(fr *frame, a []value) value {
	return int(fr.i.jb.Spec.Params[a[0].(string)])
}

func (i *interpreter) nondet(name, kind string, k types.BasicKind) value {
	e := i.ex
	t := e.fresh(sortOf(k), name)
	e.inputs = append(e.inputs, Input{Name: name, Kind: kind, Term: t})
	return sym{k: k, t: t}
}

func rtFloat64Bits(fr *frame, a []value) value {
	b := fr.i.nondet(a[0].(string), "float64bits", types.Uint64)
	return floatFromBits(b, types.Float64)
}

func rtChoice(fr *frame, a []value) value {
	i := fr.i
	name := a[0].(string)
	n := int(asInt64(a[1]))
	v := i.choice(n, "choice:"+name)
	i.ex.inputs = append(i.ex.inputs, Input{Name: name, Kind: "choice", Value: uint64(v)})
	return v
}

func rtBytes(fr *frame, a []value) value {
	name := a[0].(string)
	n := int(asInt64(a[1]))
	b := make([]value, n)
	for k := range b {
		b[k] = fr.i.nondet(fmt.Sprintf("%s[%d]", name, k), "uint8", types.Uint8)
	}
	return b
}

func rtAssume(fr *frame, a []value) value {
	i := fr.i
	switch c := a[0].(type) {
	case bool:
		if !c {
			panic(engineAbort{kind: abortAssume})
		}
	case sym:
		e := i.ex
		if !e.replaying() {
			if r := e.s.Check(c.t); r == "unsat" {
				panic(engineAbort{kind: abortAssume})
			}
		}
		e.assume(c.t)
	}
	return nil
}

func (i *interpreter) recordFail(id, detail string) {
	e := i.ex
	w, r := i.witnessUnder("", "fail", id, detail)
	if r == "sat" && w != nil {
		e.events = append(e.events, *w)
	} else {
		i.jb.mu.Lock()
		i.jb.UnknownAssert++
		i.jb.mu.Unlock()
	}
}

func rtAssert(fr *frame, a []value) value {
	i := fr.i
	e := i.ex
	id := a[1].(string)
	detail := ""
	if len(a) > 2 {
		if s, ok := a[2].(string); ok {
			detail = s
		}
	}
	e.asserts++
	switch c := a[0].(type) {
	case bool:
		if c {
			e.discharged++
			return nil
		}
		i.recordFail(id, detail)
	case sym:
		w, r := i.witnessUnder(app("not", c.t), "fail", id, detail)
		switch r {
		case "unsat":
			e.discharged++
			return nil
		case "sat":
			e.events = append(e.events, *w)
			// continue the path under the assertion (if still satisfiable)
			if e.s.Check(c.t) == "unsat" {
				panic(engineAbort{kind: abortDone, msg: "assertion fails on whole path"})
			}
			e.assume(c.t)
		default:
			i.jb.mu.Lock()
			i.jb.UnknownAssert++
			i.jb.mu.Unlock()
			e.assume(c.t)
		}
	}
	return nil
}

func rtReached(fr *frame, a []value) value {
	i := fr.i
	e := i.ex
	id := a[0].(string)
	if e.reached[id] {
		return nil
	}
	e.reached[id] = true
	i.jb.mu.Lock()
	_, have := i.jb.Reached[id]
	i.jb.mu.Unlock()
	if have {
		return nil
	}
	w, r := i.witnessUnder("", "reach", id, "")
	if r == "sat" {
		e.events = append(e.events, *w)
	}
	return nil
}

func rtKnown(fr *frame, a []value) value {
	i := fr.i
	id := a[0].(string)
	var c bool
	switch v := a[1].(type) {
	case bool:
		c = v
	case sym:
		c = i.decide(v.t, "known:"+id)
	}
	if c {
		i.ex.known = append(i.ex.known, id)
	}
	return c
}

func rtNote(fr *frame, a []value) value {
	if s, ok := a[0].(string); ok {
		fr.i.ex.notes = append(fr.i.ex.notes, s)
	}
	return nil
}

func rtNoPanic(fr *frame, a []value) value {
	i := fr.i
	id := a[0].(string)
	depth := i.depth
	i.ex.asserts++
	ok := false
	defer func() {
		if ok {
			i.ex.discharged++
		}
	}()
	func() {
		defer func() {
			r := recover()
			if r == nil {
				return
			}
			var msg string
			switch r := r.(type) {
			case engineAbort:
				panic(r)
			case targetPanic:
				msg = i.describePanic(r.v)
			case runtime.Error:
				if isEngineBug(r) {
					panic(r)
				}
				msg = r.Error()
			case string:
				msg = r
			default:
				panic(r)
			}
			i.depth = depth
			i.recordFail(id, "panic: "+msg)
		}()
		call(i, fr, token.NoPos, a[1], nil)
		ok = true
	}()
	return nil
}

func rtFreeze(fr *frame, a []value) value {
	i := fr.i
	if i.frozen == nil {
		i.frozen = map[interface{}]string{}
	}
	for _, root := range a[0].([]value) {
		i.freezeWalk(root, "root", map[interface{}]bool{})
	}
	i.freezeOn = true
	return nil
}

// freezeWalk marks every cell reachable from v.
func (i *interpreter) freezeWalk(v value, path string, seen map[interface{}]bool) {
	switch v := v.(type) {
	case *value:
		if v == nil || seen[v] {
			return
		}
		seen[v] = true
		i.frozen[v] = path
		i.freezeCells(*v, v, path, seen)
	case iface:
		i.freezeWalk(v.v, path, seen)
	case structure:
		for k := range v {
			i.frozen[&v[k]] = fmt.Sprintf("%s.f%d", path, k)
			i.freezeWalk(v[k], fmt.Sprintf("%s.f%d", path, k), seen)
		}
	case array:
		for k := range v {
			i.frozen[&v[k]] = fmt.Sprintf("%s[%d]", path, k)
			i.freezeWalk(v[k], fmt.Sprintf("%s[%d]", path, k), seen)
		}
	case []value:
		full := v[:cap(v)]
		if len(full) == 0 {
			return
		}
		if seen[&full[0]] {
			return
		}
		seen[&full[0]] = true
		for k := range full {
			i.frozen[&full[k]] = fmt.Sprintf("%s[%d]", path, k)
			if k < len(v) {
				i.freezeWalk(full[k], fmt.Sprintf("%s[%d]", path, k), seen)
			}
		}
	case *omap:
		if v == nil || seen[v] {
			return
		}
		seen[v] = true
		i.frozen[v] = path + "(map)"
		for k := range v.keys {
			if !v.dead[k] {
				i.freezeWalk(v.vals[k], fmt.Sprintf("%s[%v]", path, v.keys[k]), seen)
			}
		}
	case *closure:
		if v == nil || seen[v] {
			return
		}
		seen[v] = true
		for k, b := range v.Env {
			i.freezeWalk(b, fmt.Sprintf("%s.env%d", path, k), seen)
		}
	}
}

// freezeCells freezes the interior cells of an aggregate stored in *p.
func (i *interpreter) freezeCells(v value, p *value, path string, seen map[interface{}]bool) {
	switch v := v.(type) {
	case structure, array, []value, *omap, iface, *value, *closure:
		i.freezeWalk(v, path, seen)
	}
}

type stepBudgetExceeded struct{}

// rtBounded runs f under a step budget; exceeding it unwinds f and returns false.
func rtBounded(fr *frame, a []value) value {
	i := fr.i
	budget := asInt64(a[0])
	saved := i.budgetAt
	i.budgetAt = i.steps + budget
	depth := i.depth
	finished := true
	func() {
		defer func() {
			if r := recover(); r != nil {
				if _, ok := r.(stepBudgetExceeded); ok {
					finished = false
					i.depth = depth
					return
				}
				panic(r)
			}
		}()
		call(i, fr, token.NoPos, a[1], nil)
	}()
	i.budgetAt = saved
	return finished
}
