// Copyright 2013 The Go Authors. All rights reserved.
// Use of this source code is governed by a BSD-style
// license that can be found in the LICENSE file.

package interp

// Emulated "reflect" package.
//
// We completely replace the built-in "reflect" package.
// The only thing clients can depend upon are that reflect.Type is an
// interface and reflect.Value is an (opaque) struct.

import (
	"fmt"
	"go/token"
	"go/types"
	"reflect"
	"unsafe"

	"golang.org/x/tools/go/ssa"
)

type opaqueType struct {
	types.Type
	name string
}

func (t *opaqueType) String() string { return t.name }

// A bogus "reflect" type-checker package.  Shared across interpreters.
var reflectTypesPackage = types.NewPackage("reflect", "reflect")

// rtype is the concrete type the interpreter uses to implement the
// reflect.Type interface.
//
// type rtype <opaque>
var rtypeType = makeNamedType("rtype", &opaqueType{nil, "rtype"})

// error is an (interpreted) named type whose underlying type is string.
// The interpreter uses it for all implementations of the built-in error
// interface that it creates.
// We put it in the "reflect" package for expedience.
//
// type error string
var errorType = makeNamedType("error", &opaqueType{nil, "error"})

func makeNamedType(name string, underlying types.Type) *types.Named {
	obj := types.NewTypeName(token.NoPos, reflectTypesPackage, name, nil)
	return types.NewNamed(obj, underlying, nil)
}

func makeReflectValue(t types.Type, v value) value {
	return structure{rtype{t}, v}
}

// Given a reflect.Value, returns its rtype.
func rV2T(v value) rtype {
	return v.(structure)[0].(rtype)
}

// Given a reflect.Value, returns the underlying interpreter value.
func rV2V(v value) value {
	return v.(structure)[1]
}

// makeReflectType boxes up an rtype in a reflect.Type interface.
func makeReflectType(rt rtype) value {
	return iface{rtypeType, rt}
}

func ext۰reflect۰rtype۰Bits(fr *frame, args []value) value {
	// Signature: func (t reflect.rtype) int
	rt := args[0].(rtype).t
	basic, ok := rt.Underlying().(*types.Basic)
	if !ok {
		panic(fmt.Sprintf("reflect.Type.Bits(%T): non-basic type", rt))
	}
	return int(fr.i.sizes.Sizeof(basic)) * 8
}

func ext۰reflect۰rtype۰Elem(fr *frame, args []value) value {
	// Signature: func (t reflect.rtype) reflect.Type
	return makeReflectType(rtype{args[0].(rtype).t.Underlying().(interface {
		Elem() types.Type
	}).Elem()})
}

func ext۰reflect۰rtype۰Field(fr *frame, args []value) value {
	// Signature: func (t reflect.rtype, i int) reflect.StructField
	st := args[0].(rtype).t.Underlying().(*types.Struct)
	i := args[1].(int)
	f := st.Field(i)
	return structure{
		f.Name(),
		f.Pkg().Path(),
		makeReflectType(rtype{f.Type()}),
		st.Tag(i),
		0,         // TODO(adonovan): offset
		[]value{}, // TODO(adonovan): indices
		f.Anonymous(),
	}
}

func ext۰reflect۰rtype۰In(fr *frame, args []value) value {
	// Signature: func (t reflect.rtype, i int) int
	i := args[1].(int)
	return makeReflectType(rtype{args[0].(rtype).t.(*types.Signature).Params().At(i).Type()})
}

func ext۰reflect۰rtype۰Kind(fr *frame, args []value) value {
	// Signature: func (t reflect.rtype) uint
	return uint(reflectKind(args[0].(rtype).t))
}

func ext۰reflect۰rtype۰NumField(fr *frame, args []value) value {
	// Signature: func (t reflect.rtype) int
	return args[0].(rtype).t.Underlying().(*types.Struct).NumFields()
}

func ext۰reflect۰rtype۰NumIn(fr *frame, args []value) value {
	// Signature: func (t reflect.rtype) int
	return args[0].(rtype).t.Underlying().(*types.Signature).Params().Len()
}

func ext۰reflect۰rtype۰NumMethod(fr *frame, args []value) value {
	// Signature: func (t reflect.rtype) int
	return fr.i.prog.MethodSets.MethodSet(args[0].(rtype).t).Len()
}

func ext۰reflect۰rtype۰NumOut(fr *frame, args []value) value {
	// Signature: func (t reflect.rtype) int
	return args[0].(rtype).t.Underlying().(*types.Signature).Results().Len()
}

func ext۰reflect۰rtype۰Out(fr *frame, args []value) value {
	// Signature: func (t reflect.rtype, i int) int
	i := args[1].(int)
	return makeReflectType(rtype{args[0].(rtype).t.Underlying().(*types.Signature).Results().At(i).Type()})
}

func ext۰reflect۰rtype۰Size(fr *frame, args []value) value {
	// Signature: func (t reflect.rtype) uintptr
	return uintptr(fr.i.sizes.Sizeof(args[0].(rtype).t))
}

func ext۰reflect۰rtype۰String(fr *frame, args []value) value {
	// Signature: func (t reflect.rtype) string
	// like reflect: types are qualified by their package NAME, not its path,
	// so distinct types of same-named packages have equal strings
	return types.TypeString(args[0].(rtype).t, func(p *types.Package) string { return p.Name() })
}

func ext۰reflect۰New(fr *frame, args []value) value {
	// Signature: func (t reflect.Type) reflect.Value
	t := args[0].(iface).v.(rtype).t
	alloc := zero(t)
	return makeReflectValue(types.NewPointer(t), &alloc)
}

func ext۰reflect۰SliceOf(fr *frame, args []value) value {
	// Signature: func (t reflect.rtype) Type
	return makeReflectType(rtype{types.NewSlice(args[0].(iface).v.(rtype).t)})
}

func ext۰reflect۰TypeOf(fr *frame, args []value) value {
	// Signature: func (t reflect.rtype) Type
	return makeReflectType(rtype{args[0].(iface).t})
}

func ext۰reflect۰ValueOf(fr *frame, args []value) value {
	// Signature: func (interface{}) reflect.Value
	itf := args[0].(iface)
	return makeReflectValue(itf.t, itf.v)
}

func ext۰reflect۰Zero(fr *frame, args []value) value {
	// Signature: func (t reflect.Type) reflect.Value
	t := args[0].(iface).v.(rtype).t
	return makeReflectValue(t, zero(t))
}

func reflectKind(t types.Type) reflect.Kind {
	switch t := t.(type) {
	case *types.Named, *types.Alias:
		return reflectKind(t.Underlying())
	case *types.Basic:
		switch t.Kind() {
		case types.Bool:
			return reflect.Bool
		case types.Int:
			return reflect.Int
		case types.Int8:
			return reflect.Int8
		case types.Int16:
			return reflect.Int16
		case types.Int32:
			return reflect.Int32
		case types.Int64:
			return reflect.Int64
		case types.Uint:
			return reflect.Uint
		case types.Uint8:
			return reflect.Uint8
		case types.Uint16:
			return reflect.Uint16
		case types.Uint32:
			return reflect.Uint32
		case types.Uint64:
			return reflect.Uint64
		case types.Uintptr:
			return reflect.Uintptr
		case types.Float32:
			return reflect.Float32
		case types.Float64:
			return reflect.Float64
		case types.Complex64:
			return reflect.Complex64
		case types.Complex128:
			return reflect.Complex128
		case types.String:
			return reflect.String
		case types.UnsafePointer:
			return reflect.UnsafePointer
		}
	case *types.Array:
		return reflect.Array
	case *types.Chan:
		return reflect.Chan
	case *types.Signature:
		return reflect.Func
	case *types.Interface:
		return reflect.Interface
	case *types.Map:
		return reflect.Map
	case *types.Pointer:
		return reflect.Ptr
	case *types.Slice:
		return reflect.Slice
	case *types.Struct:
		return reflect.Struct
	}
	panic(fmt.Sprint("unexpected type: ", t))
}

func ext۰reflect۰Value۰Kind(fr *frame, args []value) value {
	// Signature: func (reflect.Value) uint
	return uint(reflectKind(rV2T(args[0]).t))
}

func ext۰reflect۰Value۰String(fr *frame, args []value) value {
	// Signature: func (reflect.Value) string
	return toString(rV2V(args[0]))
}

func ext۰reflect۰Value۰Type(fr *frame, args []value) value {
	// Signature: func (reflect.Value) reflect.Type
	return makeReflectType(rV2T(args[0]))
}

func ext۰reflect۰Value۰Uint(fr *frame, args []value) value {
	// Signature: func (reflect.Value) uint64
	switch v := rV2V(args[0]).(type) {
	case uint:
		return uint64(v)
	case uint8:
		return uint64(v)
	case uint16:
		return uint64(v)
	case uint32:
		return uint64(v)
	case uint64:
		return uint64(v)
	case uintptr:
		return uint64(v)
	}
	panic("reflect.Value.Uint")
}

func ext۰reflect۰Value۰Len(fr *frame, args []value) value {
	// Signature: func (reflect.Value) int
	switch v := rV2V(args[0]).(type) {
	case string:
		return len(v)
	case array:
		return len(v)
	case *gchan:
		return v.cap
	case []value:
		return len(v)
	case *omap:
		return v.len()
	default:
		panic(fmt.Sprintf("reflect.(Value).Len(%v)", v))
	}
}

func ext۰reflect۰Value۰MapIndex(fr *frame, args []value) value {
	// Signature: func (reflect.Value) Value
	tValue := rV2T(args[0]).t.Underlying().(*types.Map).Key()
	k := rV2V(args[1])
	switch m := rV2V(args[0]).(type) {
	case *omap:
		if v, ok := m.lookup(fr.i, k); ok {
			return makeReflectValue(tValue, v)
		}

	default:
		panic(fmt.Sprintf("(reflect.Value).MapIndex(%T, %T)", m, k))
	}
	return makeReflectValue(nil, nil)
}

func ext۰reflect۰Value۰MapKeys(fr *frame, args []value) value {
	// Signature: func (reflect.Value) []Value
	var keys []value
	tKey := rV2T(args[0]).t.Underlying().(*types.Map).Key()
	switch v := rV2V(args[0]).(type) {
	case *omap:
		it := &omapIter{m: v}
		for t := it.next(); t[0].(bool); t = it.next() {
			keys = append(keys, makeReflectValue(tKey, t[1]))
		}

	default:
		panic(fmt.Sprintf("(reflect.Value).MapKeys(%T)", v))
	}
	return keys
}

func ext۰reflect۰Value۰NumField(fr *frame, args []value) value {
	// Signature: func (reflect.Value) int
	return len(rV2V(args[0]).(structure))
}

func ext۰reflect۰Value۰NumMethod(fr *frame, args []value) value {
	// Signature: func (reflect.Value) int
	return fr.i.prog.MethodSets.MethodSet(rV2T(args[0]).t).Len()
}

func ext۰reflect۰Value۰Pointer(fr *frame, args []value) value {
	// Signature: func (v reflect.Value) uintptr
	switch v := rV2V(args[0]).(type) {
	case *value:
		return uintptr(unsafe.Pointer(v))
	case *gchan:
		return uintptr(unsafe.Pointer(v))
	case []value:
		return reflect.ValueOf(v).Pointer()
	case *omap:
		return uintptr(unsafe.Pointer(v))
	case *ssa.Function:
		return uintptr(unsafe.Pointer(v))
	case *closure:
		return uintptr(unsafe.Pointer(v))
	default:
		panic(fmt.Sprintf("reflect.(Value).Pointer(%T)", v))
	}
}

func ext۰reflect۰Value۰Index(fr *frame, args []value) value {
	// Signature: func (v reflect.Value, i int) Value
	i := args[1].(int)
	t := rV2T(args[0]).t.Underlying()
	switch v := rV2V(args[0]).(type) {
	case array:
		return makeReflectValue(t.(*types.Array).Elem(), v[i])
	case []value:
		return makeReflectValue(t.(*types.Slice).Elem(), v[i])
	default:
		panic(fmt.Sprintf("reflect.(Value).Index(%T)", v))
	}
}

func ext۰reflect۰Value۰Bool(fr *frame, args []value) value {
	// Signature: func (reflect.Value) bool
	return rV2V(args[0]).(bool)
}

func ext۰reflect۰Value۰CanAddr(fr *frame, args []value) value {
	// Signature: func (v reflect.Value) bool
	// Always false for our representation.
	return false
}

func ext۰reflect۰Value۰CanInterface(fr *frame, args []value) value {
	// Signature: func (v reflect.Value) bool
	// Always true for our representation.
	return true
}

func ext۰reflect۰Value۰Elem(fr *frame, args []value) value {
	// Signature: func (v reflect.Value) reflect.Value
	switch x := rV2V(args[0]).(type) {
	case iface:
		return makeReflectValue(x.t, x.v)
	case *value:
		var v value
		if x != nil {
			v = *x
		}
		return makeReflectValue(rV2T(args[0]).t.Underlying().(*types.Pointer).Elem(), v)
	default:
		panic(fmt.Sprintf("reflect.(Value).Elem(%T)", x))
	}
}

func ext۰reflect۰Value۰Field(fr *frame, args []value) value {
	// Signature: func (v reflect.Value, i int) reflect.Value
	v := args[0]
	i := args[1].(int)
	return makeReflectValue(rV2T(v).t.Underlying().(*types.Struct).Field(i).Type(), rV2V(v).(structure)[i])
}

func ext۰reflect۰Value۰Float(fr *frame, args []value) value {
	// Signature: func (reflect.Value) float64
	switch v := rV2V(args[0]).(type) {
	case float32:
		return float64(v)
	case float64:
		return float64(v)
	}
	panic("reflect.Value.Float")
}

func ext۰reflect۰Value۰Interface(fr *frame, args []value) value {
	// Signature: func (v reflect.Value) interface{}
	return ext۰reflect۰valueInterface(fr, args)
}

func ext۰reflect۰Value۰Int(fr *frame, args []value) value {
	// Signature: func (reflect.Value) int64
	switch x := rV2V(args[0]).(type) {
	case int:
		return int64(x)
	case int8:
		return int64(x)
	case int16:
		return int64(x)
	case int32:
		return int64(x)
	case int64:
		return x
	default:
		panic(fmt.Sprintf("reflect.(Value).Int(%T)", x))
	}
}

func ext۰reflect۰Value۰IsNil(fr *frame, args []value) value {
	// Signature: func (reflect.Value) bool
	switch x := rV2V(args[0]).(type) {
	case *value:
		return x == nil
	case *gchan:
		return x == nil
	case *omap:
		return x == nil
	case iface:
		return x.t == nil
	case []value:
		return x == nil
	case *ssa.Function:
		return x == nil
	case *ssa.Builtin:
		return x == nil
	case *closure:
		return x == nil
	default:
		panic(fmt.Sprintf("reflect.(Value).IsNil(%T)", x))
	}
}

func ext۰reflect۰Value۰IsValid(fr *frame, args []value) value {
	// Signature: func (reflect.Value) bool
	return rV2V(args[0]) != nil
}

func ext۰reflect۰Value۰Set(fr *frame, args []value) value {
	// TODO(adonovan): implement.
	return nil
}

func ext۰reflect۰valueInterface(fr *frame, args []value) value {
	// Signature: func (v reflect.Value, safe bool) interface{}
	v := args[0].(structure)
	return iface{rV2T(v).t, rV2V(v)}
}

func ext۰reflect۰error۰Error(fr *frame, args []value) value {
	return args[0]
}

// newMethod creates a new method of the specified name, package and receiver type.
func newMethod(pkg *ssa.Package, recvType types.Type, name string) *ssa.Function {
	// TODO(adonovan): fix: hack: currently the only part of Signature
	// that is needed is the "pointerness" of Recv.Type, and for
	// now, we'll set it to always be false since we're only
	// concerned with rtype.  Encapsulate this better.
	sig := types.NewSignature(types.NewVar(token.NoPos, nil, "recv", recvType), nil, nil, false)
	fn := pkg.Prog.NewFunction(name, sig, "fake reflect method")
	fn.Pkg = pkg
	return fn
}

func initReflectProg(i *Program) {
	i.reflectPackage = &ssa.Package{
		Prog:    i.Prog,
		Pkg:     reflectTypesPackage,
		Members: make(map[string]ssa.Member),
	}

	// Clobber the type-checker's notion of reflect.Value's
	// underlying type so that it more closely matches the fake one
	// (at least in the number of fields---we lie about the type of
	// the rtype field).
	//
	// We must ensure that calls to (ssa.Value).Type() return the
	// fake type so that correct "shape" is used when allocating
	// variables, making zero values, loading, and storing.
	//
	// TODO(adonovan): obviously this is a hack.  We need a cleaner
	// way to fake the reflect package (almost---DeepEqual is fine).
	// One approach would be not to even load its source code, but
	// provide fake source files.  This would guarantee that no bad
	// information leaks into other packages.
	if r := i.Prog.ImportedPackage("reflect"); r != nil {
		rV := r.Pkg.Scope().Lookup("Value").Type().(*types.Named)

		// delete bodies of the old methods
		mset := i.Prog.MethodSets.MethodSet(rV)
		for j := 0; j < mset.Len(); j++ {
			i.Prog.MethodValue(mset.At(j)).Blocks = nil
		}

		tEface := types.NewInterface(nil, nil).Complete()
		rV.SetUnderlying(types.NewStruct([]*types.Var{
			types.NewField(token.NoPos, r.Pkg, "t", tEface, false), // a lie
			types.NewField(token.NoPos, r.Pkg, "v", tEface, false),
		}, nil))
	}

	i.rtypeMethods = methodSet{
		"Bits":      newMethod(i.reflectPackage, rtypeType, "Bits"),
		"Elem":      newMethod(i.reflectPackage, rtypeType, "Elem"),
		"Field":     newMethod(i.reflectPackage, rtypeType, "Field"),
		"In":        newMethod(i.reflectPackage, rtypeType, "In"),
		"Kind":      newMethod(i.reflectPackage, rtypeType, "Kind"),
		"NumField":  newMethod(i.reflectPackage, rtypeType, "NumField"),
		"NumIn":     newMethod(i.reflectPackage, rtypeType, "NumIn"),
		"NumMethod": newMethod(i.reflectPackage, rtypeType, "NumMethod"),
		"NumOut":    newMethod(i.reflectPackage, rtypeType, "NumOut"),
		"Out":       newMethod(i.reflectPackage, rtypeType, "Out"),
		"Size":      newMethod(i.reflectPackage, rtypeType, "Size"),
		"String":    newMethod(i.reflectPackage, rtypeType, "String"),
		"Name":      newMethod(i.reflectPackage, rtypeType, "Name"),
	}
	i.errorMethods = methodSet{
		"Error": newMethod(i.reflectPackage, errorType, "Error"),
	}
}

func ext۰reflect۰rtype۰Name(fr *frame, args []value) value {
	// Signature: func (t reflect.rtype) string
	t := args[0].(rtype).t
	if n, ok := t.(*types.Named); ok {
		return n.Obj().Name()
	}
	if b, ok := t.(*types.Basic); ok {
		return b.Name()
	}
	return ""
}
