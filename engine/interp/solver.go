package interp

// SMT back end: one persistent solver process spoken to in SMT-LIB2 over a pipe.

import (
	"bufio"
	"fmt"
	"io"
	"os/exec"
	"strings"
	"time"
)

type Solver struct {
	name string
	cmd  *exec.Cmd
	in   io.WriteCloser
	out  *bufio.Reader

	Queries  int
	Sat      int
	Unsat    int
	Unknown  int
	Errors   []string
	Time     time.Duration
	depth    int
	Log      io.Writer // optional transcript
	Slowest  time.Duration
	SlowHook func(time.Duration)
	hard     time.Duration
	Dead     bool // the process was killed by the watchdog or died
}

// NewSolver starts a solver. kind is "z3", "z3-new" or "cvc5".
func NewSolver(kind string, timeoutMs int) (*Solver, error) {
	var cmd *exec.Cmd
	switch kind {
	case "z3", "z3-new":
		cmd = exec.Command(kind, "-in", fmt.Sprintf("-t:%d", timeoutMs), "-memory:4096")
	case "cvc5":
		cmd = exec.Command("cvc5", "--incremental", "--lang=smt2", "--produce-models", fmt.Sprintf("--tlimit-per=%d", timeoutMs))
	default:
		return nil, fmt.Errorf("unknown solver %q", kind)
	}
	in, err := cmd.StdinPipe()
	if err != nil {
		return nil, err
	}
	out, err := cmd.StdoutPipe()
	if err != nil {
		return nil, err
	}
	cmd.Stderr = nil
	if err := cmd.Start(); err != nil {
		return nil, err
	}
	s := &Solver{name: kind, cmd: cmd, in: in, out: bufio.NewReaderSize(out, 1<<16)}
	// hard limit per answer: solvers do not always honour their own soft
	// time limit (z3 4.8.12 was seen spinning for over an hour with 7 GB under
	// -t:10000); the watchdog kills the process, the pending and all later
	// answers of this process are "unknown", the worker starts a new one
	s.hard = time.Duration(3*timeoutMs)*time.Millisecond + 20*time.Second
	if kind == "cvc5" {
		s.Send("(set-logic ALL)")
	}
	s.Send("(set-option :produce-models true)")
	return s, nil
}

func (s *Solver) Close() {
	if s == nil || s.cmd == nil {
		return
	}
	s.in.Close()
	done := make(chan struct{})
	go func() { s.cmd.Wait(); close(done) }()
	select {
	case <-done:
	case <-time.After(2 * time.Second):
		s.cmd.Process.Kill()
		<-done
	}
	s.cmd = nil
}

func (s *Solver) Send(line string) {
	if s.Log != nil {
		fmt.Fprintln(s.Log, line)
	}
	io.WriteString(s.in, line)
	io.WriteString(s.in, "\n")
}

func (s *Solver) Push() { s.Send("(push 1)"); s.depth++ }
func (s *Solver) Pop()  { s.Send("(pop 1)"); s.depth-- }

// PopTo pops scopes until depth d.
func (s *Solver) PopTo(d int) {
	for s.depth > d {
		s.Pop()
	}
}

func (s *Solver) readLine() string {
	if s.Dead {
		return "(error \"solver died: killed earlier\")"
	}
	proc := s.cmd.Process
	wd := time.AfterFunc(s.hard, func() { proc.Kill() })
	l, err := s.out.ReadString('\n')
	wd.Stop()
	if err != nil {
		s.Dead = true
		return "(error \"solver died: " + err.Error() + "\")"
	}
	return strings.TrimSpace(l)
}

// CheckSat returns "sat", "unsat" or "unknown". Any (error line makes the
// answer "unknown" and is recorded in Errors.
func (s *Solver) CheckSat() string {
	t0 := time.Now()
	s.Send("(check-sat)")
	res := ""
	sawErr := false
	for {
		l := s.readLine()
		if l == "" {
			continue
		}
		if strings.HasPrefix(l, "(error") {
			s.Errors = append(s.Errors, l)
			sawErr = true
			if strings.Contains(l, "solver died") {
				res = "unknown"
				break
			}
			continue
		}
		res = l
		break
	}
	d := time.Since(t0)
	s.Time += d
	s.Queries++
	if d > s.Slowest {
		s.Slowest = d
	}
	if s.SlowHook != nil && d > 2*time.Second {
		s.SlowHook(d)
	}
	if sawErr {
		res = "unknown"
	}
	switch res {
	case "sat":
		s.Sat++
	case "unsat":
		s.Unsat++
	default:
		s.Unknown++
		res = "unknown"
	}
	if s.Log != nil {
		fmt.Fprintln(s.Log, "; ->", res)
	}
	return res
}

// Check asserts extra in a temporary scope and checks satisfiability.
func (s *Solver) Check(extra string) string {
	s.Push()
	s.Send("(assert " + extra + ")")
	r := s.CheckSat()
	s.Pop()
	return r
}

// GetValues evaluates terms (constants) in the current model; must follow a
// "sat" answer in the same scope.
func (s *Solver) GetValues(terms []string) ([]string, error) {
	if len(terms) == 0 {
		return nil, nil
	}
	s.Send("(get-value (" + strings.Join(terms, " ") + "))")
	var sb strings.Builder
	depth := 0
	started := false
	for {
		l := s.readLine()
		if strings.HasPrefix(l, "(error") {
			s.Errors = append(s.Errors, l)
			return nil, fmt.Errorf("%s", l)
		}
		sb.WriteString(l)
		sb.WriteByte(' ')
		for _, c := range l {
			if c == '(' {
				depth++
				started = true
			} else if c == ')' {
				depth--
			}
		}
		if started && depth <= 0 {
			break
		}
	}
	// parse ((t v) (t v) ...)
	toks := tokenizeSexp(sb.String())
	vals := make([]string, 0, len(terms))
	// walk: expect "(" then pairs
	p := 0
	if p < len(toks) && toks[p] == "(" {
		p++
	}
	for p < len(toks) && toks[p] == "(" {
		p++ // open pair
		// term (skip one sexp)
		p = skipSexp(toks, p)
		// value: one sexp
		q := skipSexp(toks, p)
		vals = append(vals, strings.Join(toks[p:q], " "))
		p = q
		if p < len(toks) && toks[p] == ")" {
			p++
		}
	}
	if len(vals) != len(terms) {
		return nil, fmt.Errorf("get-value: got %d values for %d terms: %s", len(vals), len(terms), sb.String())
	}
	return vals, nil
}

func tokenizeSexp(s string) []string {
	var toks []string
	i := 0
	for i < len(s) {
		c := s[i]
		switch {
		case c == '(' || c == ')':
			toks = append(toks, string(c))
			i++
		case c == ' ' || c == '\n' || c == '\t' || c == '\r':
			i++
		default:
			j := i
			for j < len(s) && !strings.ContainsRune("() \n\t\r", rune(s[j])) {
				j++
			}
			toks = append(toks, s[i:j])
			i = j
		}
	}
	return toks
}

func skipSexp(toks []string, p int) int {
	if p >= len(toks) {
		return p
	}
	if toks[p] != "(" {
		return p + 1
	}
	d := 0
	for p < len(toks) {
		if toks[p] == "(" {
			d++
		} else if toks[p] == ")" {
			d--
			if d == 0 {
				return p + 1
			}
		}
		p++
	}
	return p
}

// parseBV parses "#x..", "#b.." or "(_ bvN w)" into a uint64.
func parseBV(v string) (uint64, bool) {
	v = strings.TrimSpace(v)
	switch {
	case strings.HasPrefix(v, "#x"):
		var u uint64
		_, err := fmt.Sscanf(v[2:], "%x", &u)
		return u, err == nil
	case strings.HasPrefix(v, "#b"):
		var u uint64
		for _, c := range v[2:] {
			u = u<<1 | uint64(c-'0')
		}
		return u, true
	case strings.HasPrefix(v, "( _ bv"):
		var u uint64
		var w int
		_, err := fmt.Sscanf(v, "( _ bv%d %d )", &u, &w)
		return u, err == nil
	case v == "true":
		return 1, true
	case v == "false":
		return 0, true
	}
	return 0, false
}
