package interp

// Symbolic scalar layer: values of Go basic types whose content is an SMT term.

import (
	"fmt"
	"go/token"
	"go/types"
	"math"
	"strings"
)

// sym is a symbolic scalar of basic kind k whose value is SMT term t.
// Sorts: Bool for types.Bool; (_ BitVec w) for integers; (_ FloatingPoint 11 53)
// / (8 24) for floats.  For floats, bits (if non-empty) is a bit-vector term
// holding the exact IEEE bit pattern.
type sym struct {
	k    types.BasicKind
	t    string
	bits string
}

func (s sym) String() string { return fmt.Sprintf("sym<%s %s>", types.Typ[s.k], s.t) }

// rtErr is a run-time panic raised by the symbolic layer on behalf of the
// target program (division by zero etc.); it implements runtime.Error so the
// interpreted recover() sees what Go would raise.
type rtErr string

func (e rtErr) Error() string   { return "runtime error: " + string(e) }
func (e rtErr) RuntimeError()   {}
func (e rtErr) String() string  { return string(e) }

func kindWidth(k types.BasicKind) int {
	switch k {
	case types.Int8, types.Uint8:
		return 8
	case types.Int16, types.Uint16:
		return 16
	case types.Int32, types.Uint32, types.Float32:
		return 32
	case types.Int, types.Uint, types.Int64, types.Uint64, types.Uintptr, types.Float64:
		return 64
	}
	panic(fmt.Sprintf("kindWidth(%v)", k))
}

func kindSigned(k types.BasicKind) bool {
	switch k {
	case types.Int, types.Int8, types.Int16, types.Int32, types.Int64:
		return true
	}
	return false
}

func kindIsInt(k types.BasicKind) bool {
	switch k {
	case types.Int, types.Int8, types.Int16, types.Int32, types.Int64,
		types.Uint, types.Uint8, types.Uint16, types.Uint32, types.Uint64, types.Uintptr:
		return true
	}
	return false
}

func kindIsFloat(k types.BasicKind) bool { return k == types.Float32 || k == types.Float64 }

func sortOf(k types.BasicKind) string {
	switch {
	case k == types.Bool:
		return "Bool"
	case k == types.Float64:
		return "(_ FloatingPoint 11 53)"
	case k == types.Float32:
		return "(_ FloatingPoint 8 24)"
	}
	return fmt.Sprintf("(_ BitVec %d)", kindWidth(k))
}

// kindOfValue returns the basic kind of a concrete scalar (or sym).
func kindOfValue(v value) (types.BasicKind, bool) {
	switch v := v.(type) {
	case sym:
		return v.k, true
	case bool:
		return types.Bool, true
	case int:
		return types.Int, true
	case int8:
		return types.Int8, true
	case int16:
		return types.Int16, true
	case int32:
		return types.Int32, true
	case int64:
		return types.Int64, true
	case uint:
		return types.Uint, true
	case uint8:
		return types.Uint8, true
	case uint16:
		return types.Uint16, true
	case uint32:
		return types.Uint32, true
	case uint64:
		return types.Uint64, true
	case uintptr:
		return types.Uintptr, true
	case float32:
		return types.Float32, true
	case float64:
		return types.Float64, true
	}
	return 0, false
}

func bvLit(u uint64, w int) string {
	if w < 64 {
		u &= (1 << uint(w)) - 1
	}
	return fmt.Sprintf("(_ bv%d %d)", u, w)
}

// termOf returns the SMT term of a scalar value (concrete or symbolic).
func termOf(v value) string {
	switch v := v.(type) {
	case sym:
		return v.t
	case bool:
		if v {
			return "true"
		}
		return "false"
	case float64:
		return fmt.Sprintf("((_ to_fp 11 53) %s)", bvLit(math.Float64bits(v), 64))
	case float32:
		return fmt.Sprintf("((_ to_fp 8 24) %s)", bvLit(uint64(math.Float32bits(v)), 32))
	}
	k, ok := kindOfValue(v)
	if !ok {
		panic(engineAbort{kind: abortUnsupported, msg: fmt.Sprintf("termOf(%T)", v)})
	}
	return bvLit(uint64(asInt64(v)), kindWidth(k))
}

// concreteOfKind builds the concrete Go value of basic kind k from raw bits u.
func concreteOfKind(k types.BasicKind, u uint64) value {
	switch k {
	case types.Bool:
		return u != 0
	case types.Int:
		return int(u)
	case types.Int8:
		return int8(u)
	case types.Int16:
		return int16(u)
	case types.Int32:
		return int32(u)
	case types.Int64:
		return int64(u)
	case types.Uint:
		return uint(u)
	case types.Uint8:
		return uint8(u)
	case types.Uint16:
		return uint16(u)
	case types.Uint32:
		return uint32(u)
	case types.Uint64:
		return u
	case types.Uintptr:
		return uintptr(u)
	case types.Float64:
		return math.Float64frombits(u)
	case types.Float32:
		return math.Float32frombits(uint32(u))
	}
	panic(fmt.Sprintf("concreteOfKind(%v)", k))
}

func isSym(v value) bool { _, ok := v.(sym); return ok }

func app(op string, args ...string) string {
	return "(" + op + " " + strings.Join(args, " ") + ")"
}

// mkSym names long terms so that term strings do not blow up.
func (i *interpreter) mkSym(k types.BasicKind, t string) sym {
	if len(t) > 160 && i.ex != nil {
		t = i.ex.define(sortOf(k), t)
	}
	return sym{k: k, t: t}
}

func (i *interpreter) mkFloat(k types.BasicKind, t string) sym {
	return i.mkSym(k, t)
}

// floatBits returns a bit-vector term for the IEEE bits of float value v.
func (i *interpreter) floatBits(v value) value {
	switch v := v.(type) {
	case float64:
		return math.Float64bits(v)
	case float32:
		return math.Float32bits(v)
	case sym:
		w := kindWidth(v.k)
		ik := types.Uint64
		if w == 32 {
			ik = types.Uint32
		}
		if v.bits != "" {
			return sym{k: ik, t: v.bits}
		}
		// fresh bit-vector constrained to denote v (any NaN payload for NaN);
		// one per distinct term, so equal terms have equal bits.
		if i.ex.bitsOf == nil {
			i.ex.bitsOf = map[string]string{}
		}
		if b, ok := i.ex.bitsOf[v.t]; ok {
			return sym{k: ik, t: b}
		}
		b := i.ex.fresh(fmt.Sprintf("(_ BitVec %d)", w), "fb")
		i.ex.bitsOf[v.t] = b
		eb, sb := 11, 53
		if w == 32 {
			eb, sb = 8, 24
		}
		i.ex.assume(fmt.Sprintf("(= ((_ to_fp %d %d) %s) %s)", eb, sb, b, v.t))
		return sym{k: ik, t: b}
	}
	panic(fmt.Sprintf("floatBits(%T)", v))
}

func floatFromBits(v value, k types.BasicKind) value {
	s := v.(sym)
	eb, sb := 11, 53
	if k == types.Float32 {
		eb, sb = 8, 24
	}
	return sym{k: k, t: fmt.Sprintf("((_ to_fp %d %d) %s)", eb, sb, s.t), bits: s.t}
}

// symBinop implements binop when at least one operand is symbolic.
func (i *interpreter) symBinop(op token.Token, x, y value) value {
	kx, okx := kindOfValue(x)
	ky, oky := kindOfValue(y)
	if !okx || !oky {
		panic(engineAbort{kind: abortUnsupported, msg: fmt.Sprintf("symBinop %T %s %T", x, op, y)})
	}
	tx, ty := termOf(x), termOf(y)

	if op == token.SHL || op == token.SHR {
		return i.symShift(op, kx, tx, ky, ty, y)
	}
	k := kx
	switch {
	case k == types.Bool:
		switch op {
		case token.EQL:
			return i.mkSym(types.Bool, app("=", tx, ty))
		case token.NEQ:
			return i.mkSym(types.Bool, app("not", app("=", tx, ty)))
		case token.AND, token.LAND:
			return i.mkSym(types.Bool, app("and", tx, ty))
		case token.OR, token.LOR:
			return i.mkSym(types.Bool, app("or", tx, ty))
		}
	case kindIsFloat(k):
		switch op {
		case token.ADD:
			return i.mkFloat(k, app("fp.add RNE", tx, ty))
		case token.SUB:
			return i.mkFloat(k, app("fp.sub RNE", tx, ty))
		case token.MUL:
			return i.mkFloat(k, app("fp.mul RNE", tx, ty))
		case token.QUO:
			return i.mkFloat(k, app("fp.div RNE", tx, ty))
		case token.EQL:
			return i.mkSym(types.Bool, app("fp.eq", tx, ty))
		case token.NEQ:
			return i.mkSym(types.Bool, app("not", app("fp.eq", tx, ty)))
		case token.LSS:
			return i.mkSym(types.Bool, app("fp.lt", tx, ty))
		case token.LEQ:
			return i.mkSym(types.Bool, app("fp.leq", tx, ty))
		case token.GTR:
			return i.mkSym(types.Bool, app("fp.gt", tx, ty))
		case token.GEQ:
			return i.mkSym(types.Bool, app("fp.geq", tx, ty))
		}
	case kindIsInt(k):
		signed := kindSigned(k)
		pick := func(s, u string) string {
			if signed {
				return s
			}
			return u
		}
		switch op {
		case token.ADD:
			return i.mkSym(k, app("bvadd", tx, ty))
		case token.SUB:
			return i.mkSym(k, app("bvsub", tx, ty))
		case token.MUL:
			return i.mkSym(k, app("bvmul", tx, ty))
		case token.QUO, token.REM:
			if i.decide(app("=", ty, bvLit(0, kindWidth(k))), "divzero") {
				panic(rtErr("integer divide by zero"))
			}
			if op == token.QUO {
				return i.mkSym(k, app(pick("bvsdiv", "bvudiv"), tx, ty))
			}
			return i.mkSym(k, app(pick("bvsrem", "bvurem"), tx, ty))
		case token.AND:
			return i.mkSym(k, app("bvand", tx, ty))
		case token.OR:
			return i.mkSym(k, app("bvor", tx, ty))
		case token.XOR:
			return i.mkSym(k, app("bvxor", tx, ty))
		case token.AND_NOT:
			return i.mkSym(k, app("bvand", tx, app("bvnot", ty)))
		case token.EQL:
			if tx == ty {
				return true
			}
			return i.mkSym(types.Bool, app("=", tx, ty))
		case token.NEQ:
			if tx == ty {
				return false
			}
			return i.mkSym(types.Bool, app("not", app("=", tx, ty)))
		case token.LSS:
			return i.mkSym(types.Bool, app(pick("bvslt", "bvult"), tx, ty))
		case token.LEQ:
			return i.mkSym(types.Bool, app(pick("bvsle", "bvule"), tx, ty))
		case token.GTR:
			return i.mkSym(types.Bool, app(pick("bvsgt", "bvugt"), tx, ty))
		case token.GEQ:
			return i.mkSym(types.Bool, app(pick("bvsge", "bvuge"), tx, ty))
		}
	}
	panic(engineAbort{kind: abortUnsupported, msg: fmt.Sprintf("symBinop kind %v op %s", k, op)})
}

func (i *interpreter) symShift(op token.Token, kx types.BasicKind, tx string, ky types.BasicKind, ty string, y value) value {
	wx, wy := kindWidth(kx), kindWidth(ky)
	if kindSigned(ky) {
		if isSym(y) {
			if i.decide(app("bvslt", ty, bvLit(0, wy)), "negshift") {
				panic(rtErr("negative shift amount"))
			}
		} else if asInt64(y) < 0 {
			panic(rtErr("negative shift amount"))
		}
	}
	// bring the count to width wx, saturating at wx
	var cnt string
	switch {
	case wy == wx:
		cnt = ty
	case wy < wx:
		cnt = fmt.Sprintf("((_ zero_extend %d) %s)", wx-wy, ty)
	default:
		cnt = fmt.Sprintf("(ite (bvuge %s %s) %s ((_ extract %d 0) %s))", ty, bvLit(uint64(wx), wy), bvLit(uint64(wx), wx), wx-1, ty)
	}
	switch {
	case op == token.SHL:
		return i.mkSym(kx, app("bvshl", tx, cnt))
	case kindSigned(kx):
		return i.mkSym(kx, app("bvashr", tx, cnt))
	default:
		return i.mkSym(kx, app("bvlshr", tx, cnt))
	}
}

func (i *interpreter) symUnop(op token.Token, x sym) value {
	switch op {
	case token.NOT:
		return i.mkSym(types.Bool, app("not", x.t))
	case token.SUB:
		if kindIsFloat(x.k) {
			return i.mkFloat(x.k, app("fp.neg", x.t))
		}
		return i.mkSym(x.k, app("bvneg", x.t))
	case token.XOR:
		return i.mkSym(x.k, app("bvnot", x.t))
	}
	panic(engineAbort{kind: abortUnsupported, msg: fmt.Sprintf("symUnop %s", op)})
}

// symConv converts symbolic scalar x to basic kind dst.
func (i *interpreter) symConv(dst types.BasicKind, x sym) value {
	src := x.k
	switch {
	case src == dst:
		return x
	case kindIsInt(src) && kindIsInt(dst):
		ws, wd := kindWidth(src), kindWidth(dst)
		switch {
		case ws == wd:
			return sym{k: dst, t: x.t}
		case ws > wd:
			return i.mkSym(dst, fmt.Sprintf("((_ extract %d 0) %s)", wd-1, x.t))
		case kindSigned(src):
			return i.mkSym(dst, fmt.Sprintf("((_ sign_extend %d) %s)", wd-ws, x.t))
		default:
			return i.mkSym(dst, fmt.Sprintf("((_ zero_extend %d) %s)", wd-ws, x.t))
		}
	case kindIsInt(src) && kindIsFloat(dst):
		eb, sb := 11, 53
		if dst == types.Float32 {
			eb, sb = 8, 24
		}
		if kindSigned(src) {
			return i.mkFloat(dst, fmt.Sprintf("((_ to_fp %d %d) RNE %s)", eb, sb, x.t))
		}
		return i.mkFloat(dst, fmt.Sprintf("((_ to_fp_unsigned %d %d) RNE %s)", eb, sb, x.t))
	case kindIsFloat(src) && kindIsFloat(dst):
		eb, sb := 11, 53
		if dst == types.Float32 {
			eb, sb = 8, 24
		}
		return i.mkFloat(dst, fmt.Sprintf("((_ to_fp %d %d) RNE %s)", eb, sb, x.t))
	case kindIsFloat(src) && kindIsInt(dst):
		// In range: truncation toward zero.  Out of range / NaN: Go leaves the
		// result implementation-defined; amd64 yields the "integer indefinite"
		// value (0x80..0) for signed 64/32-bit targets.  We model in-range
		// exactly and out-of-range as an unconstrained value of the target
		// kind that is a function of the input bits (uninterpreted).
		wd := kindWidth(dst)
		var conv string
		if kindSigned(dst) {
			conv = fmt.Sprintf("((_ fp.to_sbv %d) RTZ %s)", wd, x.t)
		} else {
			conv = fmt.Sprintf("((_ fp.to_ubv %d) RTZ %s)", wd, x.t)
		}
		inr := i.floatInRange(x, dst)
		uf := i.ex.uf(fmt.Sprintf("f2i_%d_%d_%v", kindWidth(src), wd, kindSigned(dst)), []string{sortOf(src)}, sortOf(dst))
		return i.mkSym(dst, fmt.Sprintf("(ite %s %s (%s %s))", inr, conv, uf, x.t))
	}
	panic(engineAbort{kind: abortUnsupported, msg: fmt.Sprintf("symConv %v -> %v", src, dst)})
}

// floatInRange returns a Bool term: trunc(x) is representable in integer kind dst.
func (i *interpreter) floatInRange(x sym, dst types.BasicKind) string {
	wd := kindWidth(dst)
	eb, sb := 11, 53
	if x.k == types.Float32 {
		eb, sb = 8, 24
	}
	lit := func(f float64) string {
		if x.k == types.Float32 {
			return fmt.Sprintf("((_ to_fp %d %d) %s)", eb, sb, bvLit(uint64(math.Float32bits(float32(f))), 32))
		}
		return fmt.Sprintf("((_ to_fp %d %d) %s)", eb, sb, bvLit(math.Float64bits(f), 64))
	}
	if kindSigned(dst) {
		lo := -math.Ldexp(1, wd-1) // representable exactly
		hi := math.Ldexp(1, wd-1)
		// lo-1 < x < hi (truncation toward zero); when lo-1 is not representable
		// in the source precision the bound is x >= lo.
		lom1 := lo - 1
		exact := lom1 != lo
		if x.k == types.Float32 {
			exact = float32(lom1) != float32(lo)
		}
		if !exact {
			return fmt.Sprintf("(and (fp.geq %s %s) (fp.lt %s %s))", x.t, lit(lo), x.t, lit(hi))
		}
		return fmt.Sprintf("(and (fp.gt %s %s) (fp.lt %s %s))", x.t, lit(lom1), x.t, lit(hi))
	}
	hi := math.Ldexp(1, wd)
	return fmt.Sprintf("(and (fp.gt %s %s) (fp.lt %s %s))", x.t, lit(-1), x.t, lit(hi))
}
