// Copyright 2013 The Go Authors. All rights reserved.
// Use of this source code is governed by a BSD-style
// license that can be found in the LICENSE file.
//
// Modified for symgo: one insertion-ordered map representation for every
// key type, so that range order is deterministic across re-executions.

package interp

import (
	"fmt"
	"go/types"
)

type hashable interface {
	hash(t types.Type) int
	eq(t types.Type, x interface{}) bool
}

// omap is the representation of every Go map value.
// Iteration order is insertion order (deleted entries are tombstoned).
type omap struct {
	keyType types.Type
	builtin bool // keys are basic/pointer/chan: host == and host hashing are right
	keys    []value
	vals    []value
	dead    []bool
	idx     map[value]int // builtin keys -> position
	hidx    map[int][]int // other keys: hash -> positions
	n       int
	nsym    int // number of live entries whose key contains a symbolic scalar
}

// makeMap returns an empty initialized map of key type kt.
func makeMap(kt types.Type, reserve int64) value {
	m := &omap{keyType: kt, builtin: usesBuiltinMap(kt)}
	if m.builtin {
		m.idx = make(map[value]int)
	} else {
		m.hidx = make(map[int][]int)
	}
	return m
}

// find returns the position of key k or -1. Keys containing symbolic scalars
// are decided by forking on equality with each stored key.
func (m *omap) find(in *interpreter, k value) int {
	if m == nil {
		return -1
	}
	if m.nsym > 0 || hasSym(k) {
		if in == nil {
			panic(engineAbort{kind: abortUnsupported, msg: "symbolic map key without interpreter"})
		}
		for p := range m.keys {
			if m.dead[p] {
				continue
			}
			if !hasSym(k) && !hasSym(m.keys[p]) {
				if m.builtin {
					if m.keys[p] == k {
						return p
					}
				} else if k.(hashable).eq(m.keyType, m.keys[p]) {
					return p
				}
				continue
			}
			if in.boolOf(in.symEquals(m.keyType, k, m.keys[p]), "mapkey") {
				return p
			}
		}
		return -1
	}
	if m.builtin {
		if i, ok := m.idx[k]; ok {
			return i
		}
		return -1
	}
	hk, ok := k.(hashable)
	if !ok {
		panic(fmt.Sprintf("runtime error: hash of unhashable type %T", k))
	}
	h := hk.hash(m.keyType)
	for _, i := range m.hidx[h] {
		if !m.dead[i] && hk.eq(m.keyType, m.keys[i]) {
			return i
		}
	}
	return -1
}

func (m *omap) delete(in *interpreter, k value) {
	i := m.find(in, k)
	if i < 0 {
		return
	}
	m.dead[i] = true
	m.n--
	k = m.keys[i]
	if hasSym(k) {
		m.nsym--
	} else if m.builtin {
		delete(m.idx, k)
	} else {
		h := k.(hashable).hash(m.keyType)
		l := m.hidx[h]
		for j, p := range l {
			if p == i {
				m.hidx[h] = append(append([]int{}, l[:j]...), l[j+1:]...)
				break
			}
		}
	}
	m.keys[i], m.vals[i] = nil, nil
}

// lookup returns the value for key k and whether it is present.
func (m *omap) lookup(in *interpreter, k value) (value, bool) {
	i := m.find(in, k)
	if i < 0 {
		return nil, false
	}
	return m.vals[i], true
}

func (m *omap) insert(in *interpreter, k value, v value) {
	if m == nil {
		panic(rtErr("assignment to entry in nil map"))
	}
	if i := m.find(in, k); i >= 0 {
		m.vals[i] = v
		return
	}
	i := len(m.keys)
	m.keys = append(m.keys, k)
	m.vals = append(m.vals, v)
	m.dead = append(m.dead, false)
	m.n++
	if hasSym(k) {
		m.nsym++
	} else if m.builtin {
		m.idx[k] = i
	} else {
		h := k.(hashable).hash(m.keyType)
		m.hidx[h] = append(m.hidx[h], i)
	}
}

func (m *omap) len() int {
	if m == nil {
		return 0
	}
	return m.n
}

func (m *omap) clear() {
	if m == nil {
		return
	}
	for i := range m.keys {
		if !m.dead[i] {
			m.dead[i] = true
			m.keys[i], m.vals[i] = nil, nil
		}
	}
	m.n = 0
	m.nsym = 0
	if m.builtin {
		m.idx = make(map[value]int)
	} else {
		m.hidx = make(map[int][]int)
	}
}

type omapIter struct {
	m *omap
	i int
}

func (it *omapIter) next() tuple {
	if it.m != nil {
		for it.i < len(it.m.keys) {
			i := it.i
			it.i++
			if !it.m.dead[i] {
				return []value{true, it.m.keys[i], it.m.vals[i]}
			}
		}
	}
	return []value{false, nil, nil}
}
