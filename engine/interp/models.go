package interp

// Models of standard-library functions that cannot be interpreted from their
// own SSA (assembly, runtime, reflection, OS). Each is part of the claim.

import (
	"fmt"
	"go/token"
	"go/types"
	"math"
	"sort"
	"strconv"
	"strings"
	"time"
	"unicode/utf8"
)

func init() {
	nop := func(fr *frame, a []value) value { return nil }
	for k, v := range map[string]externalFn{
		// sync
		"(*sync.Mutex).Lock":      mutexLock,
		"(*sync.Mutex).Unlock":    mutexUnlock,
		"(*sync.Mutex).TryLock":   func(fr *frame, a []value) value { return true },
		"(*sync.RWMutex).Lock":    mutexLock,
		"(*sync.RWMutex).Unlock":  mutexUnlock,
		"(*sync.RWMutex).RLock":   mutexLock,
		"(*sync.RWMutex).RUnlock": mutexUnlock,
		"(*sync.Once).Do":         onceDo,
		"(*sync.Pool).Get":        poolGet,
		"(*sync.Pool).Put":        poolPut,
		"(*sync.WaitGroup).Add":   nop,
		"(*sync.WaitGroup).Done":  nop,
		"(*sync.WaitGroup).Wait":  nop,
		// sync/atomic (typed)
		"(*sync/atomic.Int64).Load":            atomicLoad,
		"(*sync/atomic.Int64).Store":           atomicStore,
		"(*sync/atomic.Int64).Add":             atomicAdd,
		"(*sync/atomic.Int64).CompareAndSwap":  atomicCAS,
		"(*sync/atomic.Int64).Swap":            atomicSwap,
		"(*sync/atomic.Int32).Load":            atomicLoad,
		"(*sync/atomic.Int32).Store":           atomicStore,
		"(*sync/atomic.Int32).Add":             atomicAdd,
		"(*sync/atomic.Int32).CompareAndSwap":  atomicCAS,
		"(*sync/atomic.Uint32).Load":           atomicLoad,
		"(*sync/atomic.Uint32).Store":          atomicStore,
		"(*sync/atomic.Uint32).CompareAndSwap": atomicCAS,
		"(*sync/atomic.Bool).Load":             atomicLoad,
		"(*sync/atomic.Bool).Store":            atomicStore,
		"(*sync/atomic.Value).Load":            atomicValueLoad,
		"(*sync/atomic.Value).Store":           atomicValueStore,
		"sync/atomic.LoadInt32":                atomicLoadPtr,
		"sync/atomic.LoadInt64":                atomicLoadPtr,
		"sync/atomic.LoadUint32":               atomicLoadPtr,
		"sync/atomic.LoadUint64":               atomicLoadPtr,
		"sync/atomic.StoreInt32":               atomicStorePtr,
		"sync/atomic.StoreInt64":               atomicStorePtr,
		"sync/atomic.StoreUint32":              atomicStorePtr,
		"sync/atomic.StoreUint64":              atomicStorePtr,
		"sync/atomic.AddInt32":                 atomicAddPtr,
		"sync/atomic.AddInt64":                 atomicAddPtr,
		"sync/atomic.AddUint64":                atomicAddPtr,
		"sync/atomic.CompareAndSwapInt32":      atomicCASPtr,
		"sync/atomic.CompareAndSwapInt64":      atomicCASPtr,
		"sync/atomic.CompareAndSwapUint32":     atomicCASPtr,
		// fmt
		"fmt.Sprintf":  func(fr *frame, a []value) value { return fr.i.sprintf(a[0], a[1].([]value)) },
		"fmt.Errorf":   fmtErrorf,
		"fmt.Sprint":   func(fr *frame, a []value) value { return fr.i.sprint(a[0].([]value), false) },
		"fmt.Sprintln": func(fr *frame, a []value) value { return fr.i.sprint(a[0].([]value), true) },
		"fmt.Fprintf": func(fr *frame, a []value) value {
			return fr.i.writeTo(a[0].(iface), fr.i.sprintf(a[1], a[2].([]value)))
		},
		"fmt.Fprint": func(fr *frame, a []value) value {
			return fr.i.writeTo(a[0].(iface), fr.i.sprint(a[1].([]value), false))
		},
		"fmt.Fprintln": func(fr *frame, a []value) value {
			return fr.i.writeTo(a[0].(iface), fr.i.sprint(a[1].([]value), true))
		},
		"fmt.Printf": func(fr *frame, a []value) value {
			return fr.i.stdoutWrite(fr.i.sprintf(a[0], a[1].([]value)))
		},
		"fmt.Print":   func(fr *frame, a []value) value { return fr.i.stdoutWrite(fr.i.sprint(a[0].([]value), false)) },
		"fmt.Println": func(fr *frame, a []value) value { return fr.i.stdoutWrite(fr.i.sprint(a[0].([]value), true)) },
		"fmt.FormatString": fmtFormatString,
		// strings.Builder internals
		"(*strings.Builder).copyCheck": nop,
		"(*strings.Builder).String": func(fr *frame, a []value) value {
			b := (*a[0].(*value)).(structure)
			return fr.i.bytesToString(b[1].([]value))
		},
		"internal/bytealg.MakeNoZero": func(fr *frame, a []value) value {
			n := fr.i.concSize(a[0], "MakeNoZero")
			if n < 0 || n > 1<<26 {
				fr.i.allocEvent("MakeNoZero", n)
				panic(engineAbort{kind: abortTruncated, msg: "MakeNoZero too large"})
			}
			s := make([]value, n)
			for k := range s {
				s[k] = uint8(0)
			}
			return s
		},
		// internal/bytealg assembly
		"internal/bytealg.IndexByte":       func(fr *frame, a []value) value { return fr.i.indexByte(a[0], a[1]) },
		"internal/bytealg.IndexByteString": func(fr *frame, a []value) value { return fr.i.indexByte(a[0], a[1]) },
		"internal/bytealg.LastIndexByte":       func(fr *frame, a []value) value { return fr.i.lastIndexByte(a[0], a[1]) },
		"internal/bytealg.LastIndexByteString": func(fr *frame, a []value) value { return fr.i.lastIndexByte(a[0], a[1]) },
		"internal/bytealg.Count":           func(fr *frame, a []value) value { return fr.i.countByte(a[0], a[1]) },
		"internal/bytealg.CountString":     func(fr *frame, a []value) value { return fr.i.countByte(a[0], a[1]) },
		"internal/bytealg.Equal": func(fr *frame, a []value) value {
			return fr.i.boolOf(fr.i.seqEq(a[0], a[1]), "bytealg.Equal")
		},
		"internal/bytealg.Compare":     func(fr *frame, a []value) value { return fr.i.seqCompare(a[0], a[1]) },
		"internal/bytealg.Index":       func(fr *frame, a []value) value { return fr.i.indexSeq(a[0], a[1]) },
		"internal/bytealg.IndexString": func(fr *frame, a []value) value { return fr.i.indexSeq(a[0], a[1]) },
		"internal/bytealg.Cutover":     func(fr *frame, a []value) value { return 64 },
		"bytes.Equal": func(fr *frame, a []value) value {
			return fr.i.boolOf(fr.i.seqEq(a[0], a[1]), "bytes.Equal")
		},
		"bytes.Compare":      func(fr *frame, a []value) value { return fr.i.seqCompare(a[0], a[1]) },
		"bytes.IndexByte":    func(fr *frame, a []value) value { return fr.i.indexByte(a[0], a[1]) },
		"strings.IndexByte":  func(fr *frame, a []value) value { return fr.i.indexByte(a[0], a[1]) },
		"strings.Compare":    func(fr *frame, a []value) value { return fr.i.seqCompare(a[0], a[1]) },
		"internal/stringslite.IndexByte": func(fr *frame, a []value) value { return fr.i.indexByte(a[0], a[1]) },
		// sort.Slice family: reflectlite-free model (stable insertion sort; the
		// comparison sequence differs from pdqsort, the result does not for
		// consistent comparators)
		"sort.Slice":       sortSlice,
		"sort.SliceStable": sortSlice,
		// errors
		"errors.Is": errorsIs,
		"errors.As": errorsAs,
		// runtime
		"runtime.Stack":            func(fr *frame, a []value) value { return 0 },
		"runtime/debug.Stack":      func(fr *frame, a []value) value { return []value(nil) },
		"runtime.GC":               nop,
		"runtime.Gosched":          func(fr *frame, a []value) value { fr.i.giveUp(); return nil },
		"runtime.KeepAlive":        nop,
		"runtime.SetFinalizer":     nop,
		"runtime.NumGoroutine":     func(fr *frame, a []value) value { return 1 },
		"runtime.ReadMemStats":     nop,
		"(runtime.errorString).Error": func(fr *frame, a []value) value {
			return "runtime error: " + a[0].(string)
		},
		"(*runtime.TypeAssertionError).Error": func(fr *frame, a []value) value { return "interface conversion error" },
		// encoding/gob registration is irrelevant to every modelled path
		"encoding/gob.NewDecoder":        func(fr *frame, a []value) value { return new(value) },
		"encoding/gob.NewEncoder":        func(fr *frame, a []value) value { return new(value) },
		"(*encoding/gob.Decoder).Decode": func(fr *frame, a []value) value { return fr.i.errValue("gob: not modelled (stub returns an error)") },
		"(*encoding/gob.Encoder).Encode": func(fr *frame, a []value) value { return fr.i.errValue("gob: not modelled (stub returns an error)") },
		"encoding/gob.Register":     nop,
		"encoding/gob.RegisterName": nop,
		// math
		"math.Float64bits":     func(fr *frame, a []value) value { return fr.i.floatBits(a[0]) },
		"math.Float32bits":     func(fr *frame, a []value) value { return fr.i.floatBits(a[0]) },
		"math.Float64frombits": mathFrombits64,
		"math.Float32frombits": mathFrombits32,
		"math.Abs":             func(fr *frame, a []value) value { return fr.i.mathUn("fp.abs", math.Abs, a[0]) },
		"math.Sqrt":            func(fr *frame, a []value) value { return fr.i.mathUn("fp.sqrt RNE", math.Sqrt, a[0]) },
		"math.sqrt":            func(fr *frame, a []value) value { return fr.i.mathUn("fp.sqrt RNE", math.Sqrt, a[0]) },
		"math.Floor":           func(fr *frame, a []value) value { return fr.i.mathUn("fp.roundToIntegral RTN", math.Floor, a[0]) },
		"math.Ceil":            func(fr *frame, a []value) value { return fr.i.mathUn("fp.roundToIntegral RTP", math.Ceil, a[0]) },
		"math.Trunc":           func(fr *frame, a []value) value { return fr.i.mathUn("fp.roundToIntegral RTZ", math.Trunc, a[0]) },
		"math.archFloor":       func(fr *frame, a []value) value { return fr.i.mathUn("fp.roundToIntegral RTN", math.Floor, a[0]) },
		"math.archCeil":        func(fr *frame, a []value) value { return fr.i.mathUn("fp.roundToIntegral RTP", math.Ceil, a[0]) },
		"math.archTrunc":       func(fr *frame, a []value) value { return fr.i.mathUn("fp.roundToIntegral RTZ", math.Trunc, a[0]) },
		"math.archSqrt":        func(fr *frame, a []value) value { return fr.i.mathUn("fp.sqrt RNE", math.Sqrt, a[0]) },
		"math.IsNaN": func(fr *frame, a []value) value {
			if s, ok := a[0].(sym); ok {
				return fr.i.mkSym(types.Bool, app("fp.isNaN", s.t))
			}
			return math.IsNaN(a[0].(float64))
		},
		"math.IsInf": mathIsInf,
		"math.NaN":   func(fr *frame, a []value) value { return math.NaN() },
		"math.Inf":   func(fr *frame, a []value) value { return math.Inf(int(asInt64(a[0]))) },
		"math.Pow":   func(fr *frame, a []value) value { return math.Pow(a[0].(float64), a[1].(float64)) },
		"math.Log":   func(fr *frame, a []value) value { return math.Log(a[0].(float64)) },
		"math.Exp":   func(fr *frame, a []value) value { return math.Exp(a[0].(float64)) },
		"math.Mod":   func(fr *frame, a []value) value { return math.Mod(a[0].(float64), a[1].(float64)) },
		"math.Modf": func(fr *frame, a []value) value {
			x, y := math.Modf(a[0].(float64))
			return tuple{x, y}
		},
		"math.Frexp": func(fr *frame, a []value) value {
			x, y := math.Frexp(a[0].(float64))
			return tuple{x, y}
		},
		"math.Ldexp": func(fr *frame, a []value) value { return math.Ldexp(a[0].(float64), int(asInt64(a[1]))) },
		// os
		"os.Getenv": func(fr *frame, a []value) value { return "" },
		"os.Getwd":  func(fr *frame, a []value) value { return tuple{"/work", iface{}} },
		"os.Exit":   func(fr *frame, a []value) value { panic(engineAbort{kind: abortDone, msg: "os.Exit"}) },
		"(*os.File).Write": func(fr *frame, a []value) value {
			return tuple{len(a[1].([]value)), iface{}}
		},
		"(*os.File).WriteString": func(fr *frame, a []value) value {
			b, _ := strBytes(a[1])
			return tuple{len(b), iface{}}
		},
		// strconv on symbolic numbers: opaque placeholder (uninterpreted rendering)
		"strconv.FormatInt":   strconvFormat,
		"strconv.FormatUint":  strconvFormat,
		"strconv.Itoa":        strconvFormat,
		"strconv.FormatFloat": strconvFormatFloat,
		"strconv.AppendInt":   strconvAppend,
		"strconv.AppendUint":  strconvAppend,
		"strconv.AppendFloat": strconvAppendFloat,
		"strconv.ParseFloat":  strconvParseFloat,
		"strconv.ParseInt":    strconvParseInt,
		"strconv.ParseUint":   strconvParseInt,
		"strconv.Atoi":        strconvParseInt,
		"strconv.Quote":       strconvQuote,
		// time
		"internal/godebug.New": func(fr *frame, a []value) value {
			t := fr.fn.Signature.Results().At(0).Type().(*types.Pointer).Elem()
			v := zero(t)
			return &v
		},
		"(*internal/godebug.Setting).Value":         func(fr *frame, a []value) value { return "" },
		"(*internal/godebug.Setting).IncNonDefault": func(fr *frame, a []value) value { return nil },
		"(*internal/godebug.Setting).Name":          func(fr *frame, a []value) value { return "" },
		"time.runtimeNano": func(fr *frame, a []value) value { fr.i.clock++; return int64(fr.i.clock) },
		"time.now": func(fr *frame, a []value) value {
			fr.i.clock++
			return tuple{int64(1700000000 + fr.i.clock), int32(0), int64(fr.i.clock)}
		},
		"time.runtimeNow": func(fr *frame, a []value) value {
			fr.i.clock++
			return tuple{int64(1700000000 + fr.i.clock), int32(0), int64(fr.i.clock)}
		},
		"time.initLocal": func(fr *frame, a []value) value { return nil },
		"time.Now":   timeNow,
		"time.Since": func(fr *frame, a []value) value { return int64(0) },
		"(time.Duration).String": func(fr *frame, a []value) value {
			if isSym(a[0]) {
				return placeholder(a[0])
			}
			return time.Duration(asInt64(a[0])).String()
		},
		"time.Sleep": func(fr *frame, a []value) value { fr.i.yield("sleep"); return nil },
	} {
		externals[k] = v
	}
}

// ---------------------------------------------------------------------------
// helpers

func (i *interpreter) lookupMethod(t types.Type, name string) (fn value, ok bool) {
	if t == nil {
		return nil, false
	}
	ms := i.prog.MethodSets.MethodSet(t)
	for k := 0; k < ms.Len(); k++ {
		sel := ms.At(k)
		if sel.Obj().Name() == name {
			f := i.prog.MethodValue(sel)
			if f == nil {
				return nil, false
			}
			return f, true
		}
	}
	return nil, false
}

// callMethod calls method name on the dynamic value of recv.
func (i *interpreter) callMethod(recv iface, name string, args ...value) (value, bool) {
	f, ok := i.lookupMethod(recv.t, name)
	if !ok {
		return nil, false
	}
	return call(i, nil, token.NoPos, f, append([]value{recv.v}, args...)), true
}

// boolOf forces a possibly symbolic Bool into a concrete one (forking).
func (i *interpreter) boolOf(v value, site string) bool {
	switch v := v.(type) {
	case bool:
		return v
	case sym:
		return i.decide(v.t, site)
	}
	panic(fmt.Sprintf("boolOf(%T)", v))
}

func seqBytes(v value) []value {
	switch v := v.(type) {
	case []value:
		return v
	case string, sstr:
		b, _ := strBytes(v)
		return b
	}
	panic(fmt.Sprintf("seqBytes(%T)", v))
}

func (i *interpreter) seqEq(x, y value) value { return i.strEq(seqBytes(x), seqBytes(y)) }

func (i *interpreter) seqCompare(x, y value) value {
	xb, yb := seqBytes(x), seqBytes(y)
	if i.boolOf(i.strLess(xb, yb, false), "compare<") {
		return -1
	}
	if i.boolOf(i.strEq(xb, yb), "compare=") {
		return 0
	}
	return 1
}

func (i *interpreter) byteEq(a, b value, site string) bool {
	if !isSym(a) && !isSym(b) {
		return asInt64(a) == asInt64(b)
	}
	return i.decide(app("=", termOf(a), termOf(b)), site)
}

func (i *interpreter) indexByte(s, c value) value {
	b := seqBytes(s)
	for k := range b {
		if i.byteEq(b[k], c, "IndexByte") {
			return k
		}
	}
	return -1
}

func (i *interpreter) lastIndexByte(s, c value) value {
	b := seqBytes(s)
	for k := len(b) - 1; k >= 0; k-- {
		if i.byteEq(b[k], c, "LastIndexByte") {
			return k
		}
	}
	return -1
}

func (i *interpreter) countByte(s, c value) value {
	b := seqBytes(s)
	n := 0
	for k := range b {
		if i.byteEq(b[k], c, "CountByte") {
			n++
		}
	}
	return n
}

func (i *interpreter) indexSeq(s, sub value) value {
	a, b := seqBytes(s), seqBytes(sub)
	for k := 0; k+len(b) <= len(a); k++ {
		if i.boolOf(i.strEq(a[k:k+len(b)], b), "Index") {
			return k
		}
	}
	return -1
}

func (i *interpreter) bytesToString(b []value) value { return normStr(append([]value{}, b...)) }

// ---------------------------------------------------------------------------
// sync, atomic

func mutexLock(fr *frame, a []value) value   { fr.i.lock(a[0].(*value)); return nil }
func mutexUnlock(fr *frame, a []value) value { fr.i.unlock(a[0].(*value)); return nil }

func onceDo(fr *frame, a []value) value {
	p := a[0].(*value)
	if _, done := fr.i.side[p]; done {
		return nil
	}
	fr.i.side[p] = true
	call(fr.i, fr, token.NoPos, a[1], nil)
	return nil
}

type poolState struct{ items []value }

func poolGet(fr *frame, a []value) value {
	p := a[0].(*value)
	fr.i.yield("pool.Get")
	st, _ := fr.i.side[p].(*poolState)
	if st != nil && len(st.items) > 0 {
		v := st.items[len(st.items)-1]
		st.items = st.items[:len(st.items)-1]
		return v
	}
	// call New if set: field named New
	stt := (*p).(structure)
	newFn := stt[len(stt)-1]
	switch f := newFn.(type) {
	case *closure:
		if f != nil {
			return call(fr.i, fr, token.NoPos, f, nil)
		}
	default:
		if fn, ok := newFn.(interface{ String() string }); ok && fn != nil && !isNilFunc(newFn) {
			return call(fr.i, fr, token.NoPos, newFn, nil)
		}
	}
	return iface{}
}

func isNilFunc(v value) bool {
	switch f := v.(type) {
	case *closure:
		return f == nil
	case nil:
		return true
	}
	return fmt.Sprintf("%v", v) == "<nil>"
}

func poolPut(fr *frame, a []value) value {
	p := a[0].(*value)
	fr.i.yield("pool.Put")
	st, _ := fr.i.side[p].(*poolState)
	if st == nil {
		st = &poolState{}
		fr.i.side[p] = st
	}
	st.items = append(st.items, a[1])
	return nil
}

// typed atomics are structs whose last field holds the value.
func atomicCell(p *value) *value {
	st := (*p).(structure)
	return &st[len(st)-1]
}

func atomicLoad(fr *frame, a []value) value {
	fr.i.yield("atomic.Load")
	return *atomicCell(a[0].(*value))
}
func atomicStore(fr *frame, a []value) value {
	fr.i.yield("atomic.Store")
	*atomicCell(a[0].(*value)) = a[1]
	return nil
}
func atomicAdd(fr *frame, a []value) value {
	fr.i.yield("atomic.Add")
	c := atomicCell(a[0].(*value))
	*c = fr.i.binop(token.ADD, nil, *c, a[1])
	return *c
}
func atomicSwap(fr *frame, a []value) value {
	fr.i.yield("atomic.Swap")
	c := atomicCell(a[0].(*value))
	old := *c
	*c = a[1]
	return old
}
func atomicCAS(fr *frame, a []value) value {
	fr.i.yield("atomic.CAS")
	c := atomicCell(a[0].(*value))
	if fr.i.boolOf(fr.i.binop(token.EQL, types.Typ[types.Int64], *c, a[1]), "atomic.CAS") {
		*c = a[2]
		return true
	}
	return false
}
func atomicValueLoad(fr *frame, a []value) value {
	fr.i.yield("atomic.Value.Load")
	if v, ok := fr.i.side[a[0].(*value)]; ok {
		return v.(iface)
	}
	return iface{}
}
func atomicValueStore(fr *frame, a []value) value {
	fr.i.yield("atomic.Value.Store")
	fr.i.side[a[0].(*value)] = a[1].(iface)
	return nil
}
func atomicLoadPtr(fr *frame, a []value) value {
	fr.i.yield("atomic.Load")
	return *a[0].(*value)
}
func atomicStorePtr(fr *frame, a []value) value {
	fr.i.yield("atomic.Store")
	*a[0].(*value) = a[1]
	return nil
}
func atomicAddPtr(fr *frame, a []value) value {
	fr.i.yield("atomic.Add")
	p := a[0].(*value)
	*p = fr.i.binop(token.ADD, nil, *p, a[1])
	return *p
}
func atomicCASPtr(fr *frame, a []value) value {
	fr.i.yield("atomic.CAS")
	p := a[0].(*value)
	if fr.i.boolOf(fr.i.binop(token.EQL, types.Typ[types.Int64], *p, a[1]), "atomic.CAS") {
		*p = a[2]
		return true
	}
	return false
}

// ---------------------------------------------------------------------------
// math

func mathFrombits64(fr *frame, a []value) value {
	if _, ok := a[0].(sym); ok {
		return floatFromBits(a[0], types.Float64)
	}
	return math.Float64frombits(a[0].(uint64))
}
func mathFrombits32(fr *frame, a []value) value {
	if _, ok := a[0].(sym); ok {
		return floatFromBits(a[0], types.Float32)
	}
	return math.Float32frombits(a[0].(uint32))
}
func (i *interpreter) mathUn(op string, f func(float64) float64, x value) value {
	if s, ok := x.(sym); ok {
		return i.mkFloat(s.k, app(op, s.t))
	}
	return f(x.(float64))
}
func mathIsInf(fr *frame, a []value) value {
	sign := int(asInt64(a[1]))
	if s, ok := a[0].(sym); ok {
		t := app("fp.isInfinite", s.t)
		if sign > 0 {
			t = app("and", t, app("fp.isPositive", s.t))
		} else if sign < 0 {
			t = app("and", t, app("fp.isNegative", s.t))
		}
		return fr.i.mkSym(types.Bool, t)
	}
	return math.IsInf(a[0].(float64), sign)
}

// ---------------------------------------------------------------------------
// strconv on symbolic scalars: the rendering is an uninterpreted function of
// the value; we use a placeholder string that embeds the term, so equal terms
// render equally.

func placeholder(v value) string { return "⟦" + termOf(v) + "⟧" }

// intPlaceholder: base and signedness are part of the placeholder (the same
// 64 bits render differently as int64 and uint64, and in another base).
func intPlaceholder(v value, base int, signed bool) string {
	if base == 10 && signed {
		return placeholder(v)
	}
	t := "⟦" + termOf(v)
	if !signed {
		t += ":u"
	}
	if base != 10 {
		t += ":base" + strconv.Itoa(base)
	}
	return t + "⟧"
}

// intRendering: a symbolic integer rendered by FormatInt/FormatUint/Itoa.
type intRendering struct {
	v      value
	base   int
	signed bool
}

func strconvFormat(fr *frame, a []value) value {
	if isSym(a[0]) {
		ph := placeholder(a[0])
		base := 10
		if fr.fn.Name() != "Itoa" {
			base = int(asInt64(a[1]))
		}
		ph = intPlaceholder(a[0], base, fr.fn.Name() != "FormatUint")
		if fr.i.intRenderings == nil {
			fr.i.intRenderings = map[string]intRendering{}
		}
		fr.i.intRenderings[ph] = intRendering{a[0], base, fr.fn.Name() != "FormatUint"}
		return ph
	}
	switch fr.fn.Name() {
	case "FormatInt":
		return strconv.FormatInt(asInt64(a[0]), int(asInt64(a[1])))
	case "FormatUint":
		return strconv.FormatUint(uint64(asInt64(a[0])), int(asInt64(a[1])))
	}
	return strconv.Itoa(int(asInt64(a[0])))
}

// floatPlaceholders remembers, per rendered placeholder, the float term it
// stands for and how it was formatted, so that ParseFloat of the rendering can
// apply strconv's round-trip contract instead of failing on the placeholder.
type floatRendering struct {
	v        sym
	fmtc     byte
	prec, bs int
}

func (i *interpreter) renderFloat(v value, fmtc byte, prec, bs int) string {
	// the format is part of the placeholder: renderings of one value with
	// different verbs, precisions or bit sizes are different strings
	ph := "⟦" + termOf(v) + ":" + string(rune(fmtc)) + strconv.Itoa(prec) + "/" + strconv.Itoa(bs) + "⟧"
	if s, ok := v.(sym); ok {
		if i.floatRenderings == nil {
			i.floatRenderings = map[string]floatRendering{}
		}
		i.floatRenderings[ph] = floatRendering{s, fmtc, prec, bs}
	}
	return ph
}

func strconvFormatFloat(fr *frame, a []value) value {
	if isSym(a[0]) {
		return fr.i.renderFloat(a[0], byte(asInt64(a[1])), int(asInt64(a[2])), int(asInt64(a[3])))
	}
	return strconv.FormatFloat(a[0].(float64), byte(asInt64(a[1])), int(asInt64(a[2])), int(asInt64(a[3])))
}

func appendStr(dst []value, s string) []value {
	for k := 0; k < len(s); k++ {
		dst = append(dst, s[k])
	}
	return dst
}

func strconvAppend(fr *frame, a []value) value {
	dst := a[0].([]value)
	if isSym(a[1]) {
		ph := intPlaceholder(a[1], int(asInt64(a[2])), fr.fn.Name() != "AppendUint")
		if fr.i.intRenderings == nil {
			fr.i.intRenderings = map[string]intRendering{}
		}
		fr.i.intRenderings[ph] = intRendering{a[1], int(asInt64(a[2])), fr.fn.Name() != "AppendUint"}
		return appendStr(dst, ph)
	}
	if fr.fn.Name() == "AppendUint" {
		return appendStr(dst, strconv.FormatUint(uint64(asInt64(a[1])), int(asInt64(a[2]))))
	}
	return appendStr(dst, strconv.FormatInt(asInt64(a[1]), int(asInt64(a[2]))))
}

func strconvAppendFloat(fr *frame, a []value) value {
	dst := a[0].([]value)
	if isSym(a[1]) {
		return appendStr(dst, fr.i.renderFloat(a[1], byte(asInt64(a[2])), int(asInt64(a[3])), int(asInt64(a[4]))))
	}
	return appendStr(dst, strconv.FormatFloat(a[1].(float64), byte(asInt64(a[2])), int(asInt64(a[3])), int(asInt64(a[4]))))
}

func (i *interpreter) errValue(msg string) value {
	// an *errors.errorString
	p := i.P.Pkgs["errors"]
	return call(i, nil, token.NoPos, p.Func("New"), []value{msg})
}

func strconvParseFloat(fr *frame, a []value) value {
	s, ok := a[0].(string)
	if !ok {
		// symbolic digits: interpret strconv's own code
		return callSSA(fr.i, fr, token.NoPos, fr.fn, a, nil, true)
	}
	if r, isR := fr.i.floatRenderings[s]; isR && int(asInt64(a[1])) == 64 && r.v.k == types.Float64 {
		// strconv's contract for the shortest rendering (precision -1): parsing
		// it gives back the value when it was formatted as a 64-bit float; when
		// it was formatted as a 32-bit float, some float64 that rounds to the
		// same float32. Finite values only (NaN/Inf render as words that parse too).
		if r.prec == -1 && r.bs == 64 {
			return tuple{r.v, iface{}}
		}
		if r.prec == -1 && r.bs == 32 {
			f := fr.i.mkFloat(types.Float64, fr.i.ex.fresh("(_ FloatingPoint 11 53)", "parsed"))
			fr.i.ex.assume(fmt.Sprintf("(= ((_ to_fp 8 24) RNE %s) ((_ to_fp 8 24) RNE %s))", f.t, r.v.t))
			return tuple{f, iface{}}
		}
		// a fixed precision loses digits: any float64
		f := fr.i.mkFloat(types.Float64, fr.i.ex.fresh("(_ FloatingPoint 11 53)", "parsed"))
		return tuple{f, iface{}}
	}
	f, err := strconv.ParseFloat(s, int(asInt64(a[1])))
	if err != nil {
		return tuple{f, fr.i.errValue(err.Error())}
	}
	return tuple{f, iface{}}
}

// strconvParseInt: parsing the rendering of a symbolic integer gives the
// integer back (same signedness, base 10 or matching base, 64-bit result);
// everything else is strconv's own code.
func strconvParseInt(fr *frame, a []value) value {
	if s, ok := a[0].(string); ok {
		if r, isR := fr.i.intRenderings[s]; isR {
			name := fr.fn.Name()
			base, bits := 10, 0
			if name != "Atoi" {
				base, bits = int(asInt64(a[1])), int(asInt64(a[2]))
			}
			if (base == r.base || base == 0 && r.base == 10) && (bits == 0 || bits == 64) && r.signed == (name != "ParseUint") {
				v := r.v
				if name == "Atoi" {
					v = fr.i.conv(types.Typ[types.Int], types.Typ[types.Int64], v)
				}
				return tuple{v, iface{}}
			}
		}
	}
	return callSSA(fr.i, fr, token.NoPos, fr.fn, a, nil, true)
}

func strconvQuote(fr *frame, a []value) value {
	s, ok := a[0].(string)
	if !ok {
		b, _ := strBytes(a[0])
		out := []value{uint8('"')}
		out = append(out, b...)
		out = append(out, uint8('"'))
		return normStr(out)
	}
	return strconv.Quote(s)
}

// ---------------------------------------------------------------------------
// time (opaque)

func timeNow(fr *frame, a []value) value {
	fr.i.clock++
	t := fr.fn.Signature.Results().At(0).Type()
	z := zero(t).(structure)
	z[0] = uint64(fr.i.clock) // wall
	z[1] = int64(fr.i.clock)  // ext
	return z
}

// ---------------------------------------------------------------------------
// errors

func (i *interpreter) ifaceEq(x, y iface) bool {
	if !sameType(x.t, y.t) {
		return false
	}
	if x.t == nil {
		return true
	}
	if !types.Comparable(x.t) {
		return false
	}
	return i.boolOf(i.symEquals(x.t, x.v, y.v), "errors.Is")
}

func errorsIs(fr *frame, a []value) value {
	i := fr.i
	err, target := a[0].(iface), a[1].(iface)
	if err.t == nil || target.t == nil {
		return err.t == nil && target.t == nil
	}
	return i.errIs(err, target, 0)
}

func (i *interpreter) errIs(err, target iface, depth int) bool {
	for n := 0; n < 64; n++ {
		if i.ifaceEq(err, target) {
			return true
		}
		if f, ok := i.lookupMethod(err.t, "Is"); ok {
			if r, ok := call(i, nil, token.NoPos, f, []value{err.v, target}).(bool); ok && r {
				return true
			}
		}
		f, ok := i.lookupMethod(err.t, "Unwrap")
		if !ok {
			return false
		}
		r := call(i, nil, token.NoPos, f, []value{err.v})
		switch r := r.(type) {
		case iface:
			if r.t == nil {
				return false
			}
			err = r
		case []value:
			for _, e := range r {
				if e.(iface).t != nil && i.errIs(e.(iface), target, depth+1) {
					return true
				}
			}
			return false
		default:
			return false
		}
	}
	return false
}

func errorsAs(fr *frame, a []value) value {
	i := fr.i
	err, target := a[0].(iface), a[1].(iface)
	if err.t == nil {
		return false
	}
	pt, ok := target.t.Underlying().(*types.Pointer)
	if !ok {
		panic(targetPanic{iface{t: types.Typ[types.String], v: "errors: target must be a non-nil pointer"}})
	}
	tt := pt.Elem()
	for n := 0; n < 64; n++ {
		assignable := false
		if it, ok := tt.Underlying().(*types.Interface); ok {
			assignable = types.Implements(err.t, it)
		} else {
			assignable = types.Identical(err.t, tt)
		}
		if assignable {
			p := target.v.(*value)
			if _, isI := tt.Underlying().(*types.Interface); isI {
				*p = err
			} else {
				*p = err.v
			}
			return true
		}
		if f, ok := i.lookupMethod(err.t, "As"); ok {
			if r, ok := call(i, nil, token.NoPos, f, []value{err.v, target}).(bool); ok && r {
				return true
			}
		}
		f, ok := i.lookupMethod(err.t, "Unwrap")
		if !ok {
			return false
		}
		r, ok := call(i, nil, token.NoPos, f, []value{err.v}).(iface)
		if !ok || r.t == nil {
			return false
		}
		err = r
	}
	return false
}

// ---------------------------------------------------------------------------
// fmt: a small formatter. Verbs on concrete basic values use the host fmt;
// error/Stringer/Formatter methods are the interpreted ones; symbolic scalars
// render as placeholders (an uninterpreted function of the value).

type wrapErr struct{}

func fmtErrorf(fr *frame, a []value) value {
	i := fr.i
	msg := i.sprintf(a[0], a[1].([]value))
	format, _ := a[0].(string)
	// %w support: build *fmt.wrapError if exactly one %w and the arg is an error
	if strings.Contains(format, "%w") {
		var wrapped iface
		n := 0
		vi := 0
		for k := 0; k < len(format); k++ {
			if format[k] != '%' {
				continue
			}
			k++
			for k < len(format) && strings.ContainsRune("+-# 0123456789.", rune(format[k])) {
				k++
			}
			if k >= len(format) {
				break
			}
			if format[k] == '%' {
				continue
			}
			if format[k] == 'w' && vi < len(a[1].([]value)) {
				wrapped = a[1].([]value)[vi].(iface)
				n++
			}
			vi++
		}
		if n == 1 && wrapped.t != nil {
			p := i.P.Pkgs["fmt"]
			if p != nil {
				if tn := p.Type("wrapError"); tn != nil {
					st := zero(tn.Type()).(structure)
					st[0] = msg
					st[1] = wrapped
					var cell value = st
					return iface{t: types.NewPointer(tn.Type()), v: &cell}
				}
			}
		}
	}
	return i.errValue2(msg)
}

func (i *interpreter) errValue2(msg value) value {
	p := i.P.Pkgs["errors"]
	return call(i, nil, token.NoPos, p.Func("New"), []value{msg})
}

func init() {
	externals["(*fmt.wrapError).Error"] = func(fr *frame, a []value) value {
		return (*a[0].(*value)).(structure)[0]
	}
	externals["(*fmt.wrapError).Unwrap"] = func(fr *frame, a []value) value {
		return (*a[0].(*value)).(structure)[1]
	}
}

func (i *interpreter) stdoutWrite(s value) value {
	b, _ := strBytes(s)
	i.stdout = append(i.stdout, b...)
	return tuple{len(b), iface{}}
}

func (i *interpreter) writeTo(w iface, s value) value {
	b, _ := strBytes(s)
	if w.t == nil {
		panic(rtErr("invalid memory address or nil pointer dereference"))
	}
	if strings.HasSuffix(w.t.String(), "os.File") {
		return i.stdoutWrite(s)
	}
	r, ok := i.callMethod(w, "Write", append([]value{}, b...))
	if !ok {
		panic(engineAbort{kind: abortUnsupported, msg: "Fprintf: writer without Write: " + w.t.String()})
	}
	return r
}

func (i *interpreter) sprint(args []value, ln bool) value {
	var parts []value
	for k, a := range args {
		av := a.(iface)
		if k > 0 {
			_, prevStr := basicString(args[k-1].(iface))
			_, curStr := basicString(av)
			if ln || (!prevStr && !curStr) {
				parts = append(parts, " ")
			}
		}
		parts = append(parts, i.formatArg('v', fmtFlags{}, av))
	}
	if ln {
		parts = append(parts, "\n")
	}
	return i.concatStrs(parts)
}

func basicString(a iface) (value, bool) {
	if a.t == nil {
		return nil, false
	}
	if b, ok := a.t.Underlying().(*types.Basic); ok && b.Kind() == types.String {
		return a.v, true
	}
	return nil, false
}

func (i *interpreter) concatStrs(parts []value) value {
	var out []value
	allConcrete := true
	for _, p := range parts {
		if _, ok := p.(string); !ok {
			allConcrete = false
		}
	}
	if allConcrete {
		var sb strings.Builder
		for _, p := range parts {
			sb.WriteString(p.(string))
		}
		return sb.String()
	}
	for _, p := range parts {
		b, _ := strBytes(p)
		out = append(out, b...)
	}
	return normStr(out)
}

type fmtFlags struct {
	plus, minus, sharp, space, zero bool
	wid, prec                      int
	hasWid, hasPrec                bool
	raw                            string // the flag/width text between % and the verb
}

func (i *interpreter) sprintf(formatV value, args []value) value {
	format, ok := formatV.(string)
	if !ok {
		// symbolic format bytes: the rendering is opaque (Go's fmt never
		// panics on a format string; the result is some string)
		return "⟦fmt⟧"
	}
	var parts []value
	argi := 0
	lit := 0
	for k := 0; k < len(format); k++ {
		if format[k] != '%' {
			continue
		}
		if k > lit {
			parts = append(parts, format[lit:k])
		}
		k++
		if k >= len(format) {
			parts = append(parts, "%!(NOVERB)")
			lit = k
			break
		}
		var fl fmtFlags
		st := k
		for k < len(format) && strings.ContainsRune("+-# 0", rune(format[k])) {
			switch format[k] {
			case '+':
				fl.plus = true
			case '-':
				fl.minus = true
			case '#':
				fl.sharp = true
			case ' ':
				fl.space = true
			case '0':
				fl.zero = true
			}
			k++
		}
		if k < len(format) && format[k] == '*' {
			if argi < len(args) {
				fl.wid, fl.hasWid = int(asInt64(args[argi].(iface).v)), true
				argi++
			}
			k++
		} else {
			for k < len(format) && format[k] >= '0' && format[k] <= '9' {
				fl.wid = fl.wid*10 + int(format[k]-'0')
				fl.hasWid = true
				k++
			}
		}
		if k < len(format) && format[k] == '.' {
			k++
			fl.hasPrec = true
			if k < len(format) && format[k] == '*' {
				if argi < len(args) {
					fl.prec = int(asInt64(args[argi].(iface).v))
					argi++
				}
				k++
			} else {
				for k < len(format) && format[k] >= '0' && format[k] <= '9' {
					fl.prec = fl.prec*10 + int(format[k]-'0')
					k++
				}
			}
		}
		if k >= len(format) {
			parts = append(parts, "%!(NOVERB)")
			lit = k
			break
		}
		fl.raw = format[st:k]
		verb, sz := utf8.DecodeRuneInString(format[k:])
		k += sz - 1
		lit = k + 1
		if verb == '%' {
			parts = append(parts, "%")
			continue
		}
		if argi >= len(args) {
			parts = append(parts, "%!"+string(verb)+"(MISSING)")
			continue
		}
		a := args[argi].(iface)
		argi++
		if verb == 'w' {
			verb = 'v'
		}
		parts = append(parts, i.formatArg(verb, fl, a))
	}
	if lit < len(format) {
		parts = append(parts, format[lit:])
	}
	if argi < len(args) {
		parts = append(parts, "%!(EXTRA ")
		for k := argi; k < len(args); k++ {
			if k > argi {
				parts = append(parts, ", ")
			}
			a := args[k].(iface)
			if a.t == nil {
				parts = append(parts, "<nil>")
			} else {
				parts = append(parts, a.t.String()+"=", i.formatArg('v', fmtFlags{}, a))
			}
		}
		parts = append(parts, ")")
	}
	return i.concatStrs(parts)
}

func typeString(t types.Type) string {
	return types.TypeString(t, func(p *types.Package) string { return p.Name() })
}

// formatArg renders one operand.
func (i *interpreter) formatArg(verb rune, fl fmtFlags, a iface) value {
	if a.t == nil {
		switch verb {
		case 'T', 'v':
			return "<nil>"
		}
		return "%!" + string(verb) + "(<nil>)"
	}
	if verb == 'T' {
		return typeString(a.t)
	}
	if verb == 'p' {
		return "0xc000000000"
	}
	// Formatter
	if _, isBasic := a.t.Underlying().(*types.Basic); !isBasic {
		if f, ok := i.lookupMethod(a.t, "Format"); ok && i.P.fmtState != nil {
			return i.callFormatter(f, a, verb, fl)
		}
	}
	named := false
	switch a.t.(type) {
	case *types.Named, *types.Pointer:
		named = true
	}
	if named && (verb == 'v' || verb == 's' || verb == 'q') && !fl.sharp {
		// error, then Stringer (nil pointer receivers print <nil>)
		if p, ok := a.v.(*value); ok && p == nil {
			if _, isPtr := a.t.Underlying().(*types.Pointer); isPtr {
				return "<nil>"
			}
		}
		for _, m := range []string{"Error", "String"} {
			if f, ok := i.lookupMethod(a.t, m); ok {
				sig := f.(interface{ Type() types.Type }).Type().(*types.Signature)
				if sig.Params().Len() == 0 && sig.Results().Len() == 1 {
					if b, ok := sig.Results().At(0).Type().Underlying().(*types.Basic); ok && b.Kind() == types.String {
						s := call(i, nil, token.NoPos, f, []value{a.v})
						if verb == 'q' {
							if cs, ok := s.(string); ok {
								return strconv.Quote(cs)
							}
						}
						return i.padStr(s, fl)
					}
				}
			}
		}
	}
	return i.formatPlain(verb, fl, a.t, a.v, 0)
}

func (i *interpreter) padStr(s value, fl fmtFlags) value {
	if !fl.hasWid {
		return s
	}
	b, _ := strBytes(s)
	n := len(b) // byte count approximates rune count
	if cs, ok := s.(string); ok {
		n = utf8.RuneCountInString(cs)
	}
	if n >= fl.wid {
		return s
	}
	pad := strings.Repeat(" ", fl.wid-n)
	if fl.minus {
		return i.concatStrs([]value{s, pad})
	}
	return i.concatStrs([]value{pad, s})
}

// formatPlain formats by underlying type, without consulting methods at top level.
func (i *interpreter) formatPlain(verb rune, fl fmtFlags, t types.Type, v value, depth int) value {
	spec := "%" + fl.raw + string(verb)
	switch ut := t.Underlying().(type) {
	case *types.Basic:
		switch vv := v.(type) {
		case sym:
			return placeholder(vv)
		case sstr:
			if verb == 's' || verb == 'v' {
				return i.padStr(vv, fl)
			}
			if verb == 'q' {
				return strconvQuote(nil, []value{vv})
			}
			return placeholder(sym{k: types.Uint8, t: "sstr"})
		}
		if ut.Kind() == types.UnsafePointer {
			return "0x0"
		}
		return fmt.Sprintf(spec, v)
	case *types.Pointer:
		p, _ := v.(*value)
		if p == nil {
			return "<nil>"
		}
		if depth == 0 {
			if _, ok := ut.Elem().Underlying().(*types.Struct); ok {
				return i.concatStrs([]value{"&", i.formatPlain(verb, fl, ut.Elem(), *p, depth+1)})
			}
		}
		return "0xc000000000"
	case *types.Slice:
		s, _ := v.([]value)
		if b, ok := ut.Elem().Underlying().(*types.Basic); ok && b.Kind() == types.Uint8 && (verb == 's' || verb == 'q' || verb == 'x') {
			str := i.bytesToString(s)
			if cs, ok := str.(string); ok {
				return fmt.Sprintf(spec, cs)
			}
			return str
		}
		if fl.sharp && verb == 'v' && s == nil {
			return typeString(t) + "(nil)"
		}
		parts := []value{"["}
		if fl.sharp && verb == 'v' {
			parts = []value{typeString(t) + "{"}
		}
		for k, e := range s {
			if k > 0 {
				if fl.sharp && verb == 'v' {
					parts = append(parts, ", ")
				} else {
					parts = append(parts, " ")
				}
			}
			parts = append(parts, i.formatElem(verb, fl, ut.Elem(), e, depth+1))
		}
		if fl.sharp && verb == 'v' {
			parts = append(parts, "}")
		} else {
			parts = append(parts, "]")
		}
		return i.concatStrs(parts)
	case *types.Array:
		s, _ := v.(array)
		parts := []value{"["}
		for k, e := range s {
			if k > 0 {
				parts = append(parts, " ")
			}
			parts = append(parts, i.formatElem(verb, fl, ut.Elem(), e, depth+1))
		}
		parts = append(parts, "]")
		return i.concatStrs(parts)
	case *types.Map:
		m, _ := v.(*omap)
		type kv struct {
			k string
			v value
		}
		var kvs []kv
		it := &omapIter{m: m}
		for tpl := it.next(); tpl[0].(bool); tpl = it.next() {
			ks := i.formatElem(verb, fl, ut.Key(), tpl[1], depth+1)
			kss, _ := ks.(string)
			kvs = append(kvs, kv{kss, i.formatElem(verb, fl, ut.Elem(), tpl[2], depth+1)})
		}
		sort.Slice(kvs, func(a, b int) bool { return kvs[a].k < kvs[b].k })
		parts := []value{"map["}
		for k, e := range kvs {
			if k > 0 {
				parts = append(parts, " ")
			}
			parts = append(parts, e.k, ":", e.v)
		}
		parts = append(parts, "]")
		return i.concatStrs(parts)
	case *types.Struct:
		s, _ := v.(structure)
		parts := []value{"{"}
		if fl.sharp && verb == 'v' {
			parts = []value{typeString(t) + "{"}
		}
		for k := range s {
			if k > 0 {
				if fl.sharp && verb == 'v' {
					parts = append(parts, ", ")
				} else {
					parts = append(parts, " ")
				}
			}
			if (fl.plus || fl.sharp) && verb == 'v' {
				parts = append(parts, ut.Field(k).Name()+":")
			}
			parts = append(parts, i.formatElem(verb, fl, ut.Field(k).Type(), s[k], depth+1))
		}
		parts = append(parts, "}")
		return i.concatStrs(parts)
	case *types.Interface:
		iv, _ := v.(iface)
		if iv.t == nil {
			return "<nil>"
		}
		return i.formatArgDepth(verb, fl, iv, depth)
	case *types.Signature:
		return "0x400000"
	case *types.Chan:
		return "0xc000000001"
	}
	return "?"
}

func (i *interpreter) formatArgDepth(verb rune, fl fmtFlags, a iface, depth int) value {
	if depth > 12 {
		return "..."
	}
	return i.formatArg(verb, fl, a)
}

// formatElem formats an element of static type t (methods are consulted, as fmt does).
func (i *interpreter) formatElem(verb rune, fl fmtFlags, t types.Type, v value, depth int) value {
	if depth > 12 {
		return "..."
	}
	if _, ok := t.Underlying().(*types.Interface); ok {
		iv, _ := v.(iface)
		if iv.t == nil {
			return "<nil>"
		}
		return i.formatArg(verb, fl, iv)
	}
	return i.formatArg(verb, fl, iface{t: t, v: v})
}

func fmtFormatString(fr *frame, a []value) value {
	// fmt.FormatString(state, verb): rebuild from the State interface
	st := a[0].(iface)
	var sb strings.Builder
	sb.WriteByte('%')
	for _, c := range " +-#0" {
		r, _ := fr.i.callMethod(st, "Flag", int(c))
		if b, ok := r.(bool); ok && b {
			sb.WriteRune(c)
		}
	}
	if r, ok := fr.i.callMethod(st, "Width"); ok {
		t := r.(tuple)
		if t[1].(bool) {
			sb.WriteString(strconv.Itoa(int(asInt64(t[0]))))
		}
	}
	if r, ok := fr.i.callMethod(st, "Precision"); ok {
		t := r.(tuple)
		if t[1].(bool) {
			sb.WriteByte('.')
			sb.WriteString(strconv.Itoa(int(asInt64(t[0]))))
		}
	}
	sb.WriteRune(rune(asInt64(a[1])))
	return sb.String()
}

// callFormatter invokes an interpreted Format(fmt.State, rune) method with a
// State implemented by verifrt.FmtState.
func (i *interpreter) callFormatter(f value, a iface, verb rune, fl fmtFlags) value {
	tn := i.P.fmtState
	st := zero(tn).(structure)
	// fields: Buf []byte; Plus, Minus, Sharp, Space, Zero bool; Wid, Prec int; HasWid, HasPrec bool
	st[1], st[2], st[3], st[4], st[5] = fl.plus, fl.minus, fl.sharp, fl.space, fl.zero
	st[6], st[7], st[8], st[9] = fl.wid, fl.prec, fl.hasWid, fl.hasPrec
	var cell value = st
	state := iface{t: types.NewPointer(tn), v: &cell}
	call(i, nil, token.NoPos, f, []value{a.v, state, int32(verb)})
	buf, _ := cell.(structure)[0].([]value)
	return i.bytesToString(buf)
}

func sortSlice(fr *frame, a []value) value {
	i := fr.i
	sl, ok := a[0].(iface).v.([]value)
	if !ok {
		panic(engineAbort{kind: abortUnsupported, msg: "sort.Slice on non-slice"})
	}
	less := a[1]
	for x := 1; x < len(sl); x++ {
		for y := x; y > 0; y-- {
			r := call(i, fr, token.NoPos, less, []value{y, y - 1})
			if !i.boolOf(r, "sort.less") {
				break
			}
			if i.freezeOn {
				i.monitorWrite(&sl[y])
				i.monitorWrite(&sl[y-1])
			}
			sl[y], sl[y-1] = sl[y-1], sl[y]
		}
	}
	return nil
}
