package main

import (
	"encoding/json"
	"flag"
	"fmt"
	"os"
	"strings"

	"verif/engine/interp"
)

const module = "github.com/ozanh/ugo"

func envOr(k, d string) string {
	if v := os.Getenv(k); v != "" {
		return v
	}
	return d
}

func main() {
	if len(os.Args) < 2 {
		fmt.Fprintln(os.Stderr, "usage: symgo run|check|replay ...")
		os.Exit(2)
	}
	switch os.Args[1] {
	case "run":
		devRun(os.Args[2:])
	case "check":
		os.Exit(checkMain(os.Args[2:]))
	case "xsolver":
		os.Exit(xsolverMain(os.Args[2:]))
	case "replay":
		os.Exit(replayMain(os.Args[2:]))
	default:
		fmt.Fprintln(os.Stderr, "unknown command", os.Args[1])
		os.Exit(2)
	}
}

// devRun explores one harness and dumps the result (development aid).
func devRun(args []string) {
	fs := flag.NewFlagSet("run", flag.ExitOnError)
	pkg := fs.String("pkg", module, "package import path")
	workers := fs.Int("j", 16, "workers")
	maxPaths := fs.Int("paths", 20000, "max paths")
	params := fs.String("params", "", "k=v,k=v")
	solver := fs.String("solver", "z3", "solver")
	wallMs := fs.Int64("wall", 0, "per-job wall limit in ms")
	small := fs.Int64("small", 0, "enumerate symbolic sizes up to this value (default 64)")
	fs.Parse(args)
	repo := envOr("VERIF_REPO", "/repo")
	P, err := interp.Load(repo, module, envOr("VERIF_HARNESS", verifDir+"/harness"), loadPkgs())
	if err != nil {
		fmt.Fprintln(os.Stderr, err)
		os.Exit(2)
	}
	fmt.Fprintf(os.Stderr, "loaded in %v\n", P.LoadTime)
	pm := map[string]int64{}
	if *params != "" {
		for _, kv := range strings.Split(*params, ",") {
			var k string
			var v int64
			p := strings.SplitN(kv, "=", 2)
			k = p[0]
			fmt.Sscan(p[1], &v)
			pm[k] = v
		}
	}
	var specs []interp.JobSpec
	for _, f := range fs.Args() {
		specs = append(specs, interp.JobSpec{Pkg: *pkg, Func: f, Params: pm, MaxPaths: *maxPaths, SmallSize: *small, MaxWallMs: *wallMs})
	}
	jobs := P.RunJobs(specs, *workers, *solver)
	for _, j := range jobs {
		fmt.Printf("== %s: paths=%d completed=%d assume-ended=%d truncated=%d decisions=%d steps=%d asserts=%d discharged=%d queries=%d (sat %d unsat %d unknown %d) solver=%v wall=%v\n",
			j.Spec.Name(), j.Paths, j.Completed, j.AssumeEnded, j.Truncated, j.Decisions, j.Steps, j.Asserts, j.Discharged,
			j.Queries, j.SolverSat, j.SolverUnsat, j.SolverUnknown, j.SolverTime, j.Wall)
		for _, r := range j.Inconclusive() {
			fmt.Println("  INCONCLUSIVE:", r)
		}
		for k, n := range j.Notes {
			fmt.Printf("  note x%d: %s\n", n, k)
		}
		seen := map[string]int{}
		for _, w := range j.Fails {
			key := w.ID + " known=" + strings.Join(w.Known, ",")
			seen[key]++
			if seen[key] <= 3 {
				b, _ := json.Marshal(w)
				fmt.Println("  FAIL", string(b))
			}
		}
		for k, n := range seen {
			fmt.Printf("  fail-class %s x%d\n", k, n)
		}
		for k, w := range j.Panics {
			if k < 3 {
				b, _ := json.Marshal(w)
				fmt.Println("  PANIC", string(b))
			}
		}
		if len(j.Panics) > 0 {
			fmt.Printf("  panics x%d\n", len(j.Panics))
		}
		for _, w := range j.TruncWitness {
			b, _ := json.Marshal(w)
			fmt.Println("  TRUNCATED/UNSUPPORTED", string(b))
		}
		for _, w := range j.AllocEvents {
			b, _ := json.Marshal(w)
			fmt.Println("  ALLOC", string(b))
		}
		for id := range j.Reached {
			fmt.Println("  reached", id)
		}
	}
}

func loadPkgs() []string {
	return []string{
		module, module + "/encoder", module + "/stdlib/json", module + "/stdlib/strings",
		module + "/stdlib/fmt", module + "/stdlib/time", module + "/parser", module + "/internal/verifrt", module + "/importers",
		"unicode/utf8",
	}
}

// replayMain replays one witness file natively against the real build.
func replayMain(args []string) int {
	if len(args) != 2 {
		fmt.Fprintln(os.Stderr, "usage: symgo replay <property> <witness.json>")
		return 2
	}
	b, err := os.ReadFile(args[1])
	if err != nil {
		fmt.Fprintln(os.Stderr, err)
		return 2
	}
	var w interp.Witness
	if err := json.Unmarshal(b, &w); err != nil {
		fmt.Fprintln(os.Stderr, err)
		return 2
	}
	repo := envOr("VERIF_REPO", "/repo")
	P, err := interp.Load(repo, module, envOr("VERIF_HARNESS", verifDir+"/harness"), loadPkgs())
	if err != nil {
		fmt.Fprintln(os.Stderr, err)
		return 2
	}
	work := fmt.Sprintf("%s/.work/replay-%d", verifDir, os.Getpid())
	defer os.RemoveAll(work)
	res, log, err := replayNative(P, []*interp.Witness{&w}, work)
	if err != nil {
		fmt.Fprintln(os.Stderr, log)
		fmt.Fprintln(os.Stderr, err)
		return 2
	}
	r := res[0]
	if r == nil {
		fmt.Println("no result")
		return 2
	}
	out, _ := json.MarshalIndent(r, "", " ")
	fmt.Printf("witness: harness=%s event=%s id=%s known=%v\nnative result:\n%s\n", w.Harness, w.Event, w.ID, w.Known, out)
	for _, f := range r.Fails {
		if f.ID == w.ID {
			fmt.Printf("REPRODUCED: assertion %q fails natively\n", w.ID)
			return 1
		}
	}
	if w.Event == "panic" && r.Panic != "" {
		fmt.Println("REPRODUCED: panic", r.Panic)
		return 1
	}
	fmt.Println("not reproduced")
	return 0
}
