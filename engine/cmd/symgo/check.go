package main

import (
	"bufio"
	"bytes"
	"encoding/json"
	"flag"
	"fmt"
	"os"
	"os/exec"
	"path/filepath"
	"sort"
	"strconv"
	"strings"
	"sync"
	"time"

	"verif/engine/interp"
)

var verifDir = envOr("VERIF_DIR", "/verif")

type knownFinding struct {
	Property string `json:"property"`
	ID       string `json:"id"`
	Status   string `json:"status"` // "open" or "fixed"
	Commit   string `json:"commit,omitempty"`
	What     string `json:"what"`
	Line     string `json:"line,omitempty"`
}

type knownFile struct {
	Findings []knownFinding `json:"findings"`
}

func loadKnown() map[string]knownFinding {
	m := map[string]knownFinding{}
	b, err := os.ReadFile(filepath.Join(verifDir, "known_findings.json"))
	if err != nil {
		return m
	}
	var kf knownFile
	if json.Unmarshal(b, &kf) != nil {
		return m
	}
	for _, f := range kf.Findings {
		m[f.ID] = f
	}
	return m
}

// nativeResult mirrors verifrt.result.
type nativeResult struct {
	Idx   int `json:"idx"`
	Fails []struct {
		ID    string   `json:"id"`
		Known []string `json:"known"`
		Msg   string   `json:"msg"`
	} `json:"fails"`
	Reached  []string `json:"reached"`
	Panic    string   `json:"panic"`
	Mismatch string   `json:"mismatch"`
	Skipped  bool     `json:"skipped"`
	Notes    []string `json:"notes"`
}

// replayNative runs the witnesses natively (go test with overlay), one go
// test invocation per package, and returns results indexed like ws.
func replayNative(P *interp.Program, ws []*interp.Witness, work string) (map[int]*nativeResult, string, error) {
	res := map[int]*nativeResult{}
	if len(ws) == 0 {
		return res, "", nil
	}
	os.MkdirAll(work, 0o755)
	wpath := filepath.Join(work, "witnesses.json")
	b, _ := json.Marshal(ws)
	if err := os.WriteFile(wpath, b, 0o644); err != nil {
		return nil, "", err
	}
	byPkg := map[string]map[string]bool{}
	for _, w := range ws {
		if byPkg[w.Pkg] == nil {
			byPkg[w.Pkg] = map[string]bool{}
		}
		byPkg[w.Pkg][w.Harness] = true
	}
	var log bytes.Buffer
	for pkg, fns := range byPkg {
		sp := P.Pkgs[pkg]
		if sp == nil {
			return nil, "", fmt.Errorf("package %s not loaded", pkg)
		}
		var names []string
		for f := range fns {
			names = append(names, f)
		}
		sort.Strings(names)
		var src bytes.Buffer
		fmt.Fprintf(&src, "//go:build verif\n\npackage %s\n\nimport (\n\t\"testing\"\n\n\t\"%s/internal/verifrt\"\n)\n\n", sp.Pkg.Name(), module)
		fmt.Fprintf(&src, "func TestVerifReplay(t *testing.T) {\n\tverifrt.Replay(t, %q, map[string]func(){\n", pkg)
		for _, n := range names {
			fmt.Fprintf(&src, "\t\t%q: %s,\n", n, n)
		}
		fmt.Fprintf(&src, "\t})\n}\n")
		tf := filepath.Join(work, "replay_"+sp.Pkg.Name()+"_test.go")
		os.WriteFile(tf, src.Bytes(), 0o644)
		ov := map[string]string{}
		for v, r := range P.Overlay {
			ov[v] = r
		}
		ov[filepath.Join(P.Repo, strings.TrimPrefix(pkg, module), "zz_verif_replay_test.go")] = tf
		ob, _ := json.Marshal(map[string]interface{}{"Replace": ov})
		of := filepath.Join(work, "overlay_"+sp.Pkg.Name()+".json")
		os.WriteFile(of, ob, 0o644)
		bin := filepath.Join(work, "replay_"+sp.Pkg.Name()+".test")
		cmd := exec.Command("go", "test", "-tags", "verif", "-vet=off", "-c", "-o", bin, "-overlay", of, pkg)
		cmd.Dir = P.Repo
		cmd.Env = append(os.Environ(), "GOFLAGS=-mod=mod", "GOPROXY=off", "GOSUMDB=off", "GOTOOLCHAIN=local")
		if out, err := cmd.CombinedOutput(); err != nil {
			log.Write(out)
			return res, log.String(), fmt.Errorf("native replay build of %s failed: %v: %s", pkg, err, firstLine(string(out)))
		}
		parse := func(out []byte) int {
			sc := bufio.NewScanner(bytes.NewReader(out))
			sc.Buffer(make([]byte, 1<<20), 1<<26)
			n := 0
			for sc.Scan() {
				l := sc.Text()
				if k := strings.Index(l, "VERIF-RESULT "); k >= 0 {
					var r nativeResult
					if json.Unmarshal([]byte(l[k+len("VERIF-RESULT "):]), &r) == nil {
						res[r.Idx] = &r
						n++
					}
				}
			}
			return n
		}
		pkgDir := filepath.Join(P.Repo, strings.TrimPrefix(pkg, module))
		// many witnesses: replay in concurrent shards (witness i goes to shard i mod n)
		nw := 0
		for _, w := range ws {
			if w.Pkg == pkg {
				nw++
			}
		}
		shards := 1
		if nw > 24 {
			shards = 8
		}
		outs := make([][]byte, shards)
		errs := make([]error, shards)
		var wg sync.WaitGroup
		for k := 0; k < shards; k++ {
			wg.Add(1)
			go func(k int) {
				defer wg.Done()
				run := exec.Command(bin, "-test.run", "^TestVerifReplay$", "-test.v", "-test.timeout", "8m")
				run.Dir = pkgDir
				run.Env = append(os.Environ(), "VERIF_WITNESSES="+wpath, fmt.Sprintf("VERIF_SHARD=%d/%d", k, shards))
				outs[k], errs[k] = run.CombinedOutput()
			}(k)
		}
		wg.Wait()
		var err error
		for k := 0; k < shards; k++ {
			log.Write(outs[k])
			parse(outs[k])
			if errs[k] != nil {
				err = errs[k]
			}
		}
		if err != nil {
			// the process died (e.g. memory exhaustion inside one witness):
			// replay every witness that has no result yet in its own process
			for idx, w := range ws {
				if w.Pkg != pkg || w.Event == "alloc" || res[idx] != nil {
					continue
				}
				sh := fmt.Sprintf("ulimit -v 6291456; exec %s -test.run '^TestVerifReplay$' -test.v -test.timeout 2m", bin)
				one := exec.Command("bash", "-c", sh)
				one.Dir = pkgDir
				one.Env = append(os.Environ(), "VERIF_WITNESSES="+wpath, fmt.Sprintf("VERIF_ONLY=%d", idx), "GOMEMLIMIT=4GiB")
				o, e := one.CombinedOutput()
				log.Write(o)
				if parse(o) == 0 && e != nil {
					r := &nativeResult{Idx: idx}
					so := string(o)
					if strings.Contains(so, "out of memory") || strings.Contains(so, "cannot allocate memory") {
						r.Panic = "process died of memory exhaustion"
					} else {
						r.Panic = "process died: " + firstLine(so)
					}
					res[idx] = r
				}
			}
		}
		// allocation witnesses: one process each, under an address-space limit;
		// dying of memory exhaustion confirms the over-allocation
		for idx, w := range ws {
			if w.Pkg != pkg || w.Event != "alloc" {
				continue
			}
			sh := fmt.Sprintf("ulimit -v 6291456; exec %s -test.run '^TestVerifReplay$' -test.v -test.timeout 2m", bin)
			run := exec.Command("bash", "-c", sh)
			run.Dir = pkgDir
			run.Env = append(os.Environ(), "VERIF_WITNESSES="+wpath, fmt.Sprintf("VERIF_ONLY=%d", idx), "GOMEMLIMIT=4GiB")
			out, err := run.CombinedOutput()
			log.Write(out)
			if parse(out) == 0 && err != nil {
				so := string(out)
				if strings.Contains(so, "out of memory") || strings.Contains(so, "cannot allocate memory") || strings.Contains(so, "makeslice: len out of range") || strings.Contains(so, "too large") {
					r := &nativeResult{Idx: idx}
					r.Fails = append(r.Fails, struct {
						ID    string   `json:"id"`
						Known []string `json:"known"`
						Msg   string   `json:"msg"`
					}{ID: "alloc-oversize", Msg: "process died of memory exhaustion"})
					res[idx] = r
				}
			}
		}
	}
	return res, log.String(), nil
}

func sameSet(a, b []string) bool {
	if len(a) != len(b) {
		return false
	}
	x := append([]string{}, a...)
	y := append([]string{}, b...)
	sort.Strings(x)
	sort.Strings(y)
	for i := range x {
		if x[i] != y[i] {
			return false
		}
	}
	return true
}

type checkOutcome struct {
	violations   []string
	known        map[string]int
	inconclusive []string
}

var solverUsed = "z3"
var onlyFilter = ""

func solverDesc() string {
	switch solverUsed {
	case "z3-new":
		return "z3 5.1.0 (z3-new) over one pipe per worker (push/pop)"
	case "cvc5":
		return "cvc5 1.0 --incremental over one pipe per worker (push/pop)"
	}
	return "z3 4.8.12 over one pipe per worker (push/pop)"
}

// xsolverMain runs the jobs of a property under each installed solver and
// compares, job by job, the counters that depend on solver answers (paths,
// completed paths, assume-ended paths, assertions, discharged assertions,
// failing witnesses, unknown answers). Writes no evidence.
func xsolverMain(args []string) int {
	fs := flag.NewFlagSet("xsolver", flag.ExitOnError)
	tier := fs.String("tier", "quick", "quick|thorough")
	workers := fs.Int("j", 16, "workers")
	only := fs.String("only", "", "run only jobs whose name contains this")
	solvers := fs.String("solvers", "z3,z3-new,cvc5", "comma separated")
	fs.Parse(args)
	rc := 0
	for _, id := range fs.Args() {
		pd := props[id]
		if pd == nil {
			fmt.Fprintln(os.Stderr, "unknown property", id)
			return 2
		}
		P, err := interp.Load(envOr("VERIF_REPO", "/repo"), module, envOr("VERIF_HARNESS", filepath.Join(verifDir, "harness")), loadPkgs())
		if err != nil {
			fmt.Fprintln(os.Stderr, err)
			return 2
		}
		specs := pd.Jobs(*tier, 0)
		if *only != "" {
			var f []interp.JobSpec
			for _, s := range specs {
				if strings.Contains(s.Name(), *only) {
					f = append(f, s)
				}
			}
			specs = f
		}
		type row struct{ paths, completed, assumed, asserts, disch, fails, unknown int }
		var base map[string]row
		baseName := ""
		for _, sv := range strings.Split(*solvers, ",") {
			t0 := time.Now()
			jobs := P.RunJobs(specs, *workers, sv)
			cur := map[string]row{}
			unk := 0
			for _, j := range jobs {
				cur[j.Spec.Name()] = row{j.Paths, j.Completed, j.AssumeEnded, j.Asserts, j.Discharged, len(j.Fails), j.SolverUnknown}
				unk += j.SolverUnknown
			}
			fmt.Printf("XSOLVER %s solver=%s jobs=%d unknown=%d wall=%.1fs\n", id, sv, len(jobs), unk, time.Since(t0).Seconds())
			if base == nil {
				base, baseName = cur, sv
				continue
			}
			for n, r := range cur {
				if b := base[n]; b != r {
					fmt.Printf("XSOLVER-DIFF %s job=%s %s=%+v %s=%+v\n", id, n, baseName, b, sv, r)
					rc = 1
				}
			}
		}
	}
	if rc == 0 {
		fmt.Println("XSOLVER all solvers agree on every job")
	}
	return rc
}

func checkMain(args []string) int {
	fs := flag.NewFlagSet("check", flag.ExitOnError)
	tier := fs.String("tier", envOr("VERIF_TIER", "quick"), "quick|thorough")
	workers := fs.Int("j", 16, "workers")
	solver := fs.String("solver", "z3", "z3|z3-new|cvc5")
	only := fs.String("only", "", "run only jobs whose name contains this")
	timing := fs.Bool("timing", false, "print per-job wall time")
	keep := fs.Bool("keep", false, "keep work dir")
	fs.Parse(args)
	if fs.NArg() != 1 {
		fmt.Fprintln(os.Stderr, "usage: symgo check [--tier quick|thorough] <property>")
		return 2
	}
	id := fs.Arg(0)
	solverUsed = *solver
	onlyFilter = *only
	if *tier != "quick" && *tier != "thorough" {
		*tier = "quick"
	}
	seed, _ := strconv.ParseInt(envOr("VERIF_SEED", "0"), 10, 64)
	pd := props[id]
	if pd == nil {
		fmt.Fprintln(os.Stderr, "unknown property", id)
		return 2
	}
	t0 := time.Now()
	repo := envOr("VERIF_REPO", "/repo")
	P, err := interp.Load(repo, module, envOr("VERIF_HARNESS", filepath.Join(verifDir, "harness")), loadPkgs())
	if err != nil {
		fmt.Printf("INCONCLUSIVE property=%s reason=load: %v\n", id, firstLine(err.Error()))
		fmt.Fprintln(os.Stderr, err)
		writeEvidence(pd, *tier, seed, nil, nil, 0, []string{"load failed: " + err.Error()}, time.Since(t0), nil, P)
		return 2
	}
	specs := pd.Jobs(*tier, seed)
	if *only != "" {
		var f []interp.JobSpec
		for _, s := range specs {
			if strings.Contains(s.Name(), *only) {
				f = append(f, s)
			}
		}
		specs = f
	}
	jobs := P.RunJobs(specs, *workers, *solver)

	if *timing {
		for _, j := range jobs {
			fmt.Fprintf(os.Stderr, "TIMING %8.1fs paths=%-6d %s\n", j.Wall.Seconds(), j.Paths, j.Spec.Name())
		}
	}
	// collect witnesses to replay
	var ws []*interp.Witness
	type cls struct{ n int }
	perClass := map[string]int{}
	addW := func(w *interp.Witness, limit int) {
		key := w.Harness + "|" + w.Event + "|" + w.ID + "|" + strings.Join(w.Known, ",")
		if w.Event == "reach" {
			key += "|" + fmt.Sprint(w.Params)
		}
		perClass[key]++
		if perClass[key] <= limit {
			ws = append(ws, w)
		}
	}
	var inconclusive []string
	for _, j := range jobs {
		for _, r := range j.Inconclusive() {
			inconclusive = append(inconclusive, j.Spec.Name()+": "+r)
		}
		ids := make([]string, 0, len(j.Reached))
		for k := range j.Reached {
			ids = append(ids, k)
		}
		sort.Strings(ids)
		for _, k := range ids {
			addW(j.Reached[k], 1)
		}
		for _, w := range j.Fails {
			addW(w, 8)
		}
		for _, w := range j.Panics {
			addW(w, 8)
		}
		for _, w := range j.AllocEvents {
			addW(w, 2)
		}
		if len(j.Reached) == 0 && j.Completed > 0 && pd.NeedReach {
			inconclusive = append(inconclusive, j.Spec.Name()+": no reachability witness (vacuous harness?)")
		}
	}
	work := filepath.Join(verifDir, ".work", fmt.Sprintf("%s-%d", id, os.Getpid()))
	defer func() {
		if !*keep {
			os.RemoveAll(work)
		}
	}()
	nres, nlog, err := replayNative(P, ws, work)
	if err != nil {
		inconclusive = append(inconclusive, err.Error())
		fmt.Fprintln(os.Stderr, nlog)
	}
	known := loadKnown()
	validated := 0
	// a failure class (harness, event, assertion, labels) is confirmed when at
	// least one of its witnesses reproduces natively; siblings that do not
	// (e.g. values whose effect depends on a stub such as the rendering of a
	// symbolic number) are then only counted
	classOf := func(w *interp.Witness) string {
		return w.Harness + "|" + w.Event + "|" + w.ID + "|" + strings.Join(w.Known, ",")
	}
	classConfirmed := map[string]bool{}
	for idx, w := range ws {
		if w.Event == "reach" {
			continue
		}
		if r := nres[idx]; r != nil && r.Mismatch == "" {
			for _, f := range r.Fails {
				if f.ID == w.ID && (sameSet(f.Known, w.Known) || w.Event == "alloc") {
					classConfirmed[classOf(w)] = true
				}
			}
			if (w.Event == "panic" || w.Event == "alloc") && r.Panic != "" {
				classConfirmed[classOf(w)] = true
			}
		}
	}
	engineFailed := map[string]bool{}
	for _, j := range jobs {
		for _, f := range j.Fails {
			engineFailed[f.Harness+"|"+f.ID] = true
		}
		for _, f := range j.AllocEvents {
			engineFailed[f.Harness+"|"+f.ID] = true
		}
		for _, f := range j.Panics {
			engineFailed[f.Harness+"|"+f.ID] = true
		}
	}
	unreproduced := 0
	var violations []*interp.Witness
	knownSeen := map[string]*interp.Witness{}
	for idx, w := range ws {
		r := nres[idx]
		if r == nil {
			inconclusive = append(inconclusive, fmt.Sprintf("%s: witness %s/%s not replayed natively", w.Harness, w.Event, w.ID))
			continue
		}
		if r.Mismatch != "" {
			inconclusive = append(inconclusive, fmt.Sprintf("%s: native replay input mismatch: %s", w.Harness, r.Mismatch))
			continue
		}
		switch w.Event {
		case "reach":
			ok := false
			for _, x := range r.Reached {
				if x == w.ID {
					ok = true
				}
			}
			if ok {
				validated++
			} else {
				inconclusive = append(inconclusive, fmt.Sprintf("%s: reachability witness %q not reproduced natively (panic=%q skipped=%v)", w.Harness, w.ID, firstLine(r.Panic), r.Skipped))
			}
			// the other direction: an assertion that fails natively on this input
			// although no path of the engine ever failed it means the engine (a
			// model, a stub, the encoding) disagrees with the real build
			for _, f := range r.Fails {
				if !engineFailed[w.Harness+"|"+f.ID] {
					inconclusive = append(inconclusive, fmt.Sprintf("%s: assertion %q fails natively on the input of reachability witness %q but never in the engine: engine model or encoding is wrong here", w.Harness, f.ID, w.ID))
				}
			}
		case "panic":
			if r.Panic != "" {
				validated++
				violations = append(violations, w)
			} else {
				inconclusive = append(inconclusive, fmt.Sprintf("%s: escaped panic (%s) not reproduced natively", w.Harness, firstLine(w.Detail)))
			}
		case "fail", "alloc":
			matched := false
			for _, f := range r.Fails {
				if f.ID == w.ID && (sameSet(f.Known, w.Known) || w.Event == "alloc") {
					matched = true
				}
			}
			if w.Event == "alloc" && r.Panic != "" {
				matched = true // makeslice/Grow panics are over-allocation too
			}
			if !matched {
				if classConfirmed[classOf(w)] {
					unreproduced++
					continue
				}
				inconclusive = append(inconclusive, fmt.Sprintf("%s: assertion %q (known=%v) failed in the engine but not natively: engine model or encoding is wrong here", w.Harness, w.ID, w.Known))
				continue
			}
			validated++
			if len(w.Known) == 0 {
				violations = append(violations, w)
				continue
			}
			allOpen := true
			for _, k := range w.Known {
				if f, ok := known[k]; !ok || f.Status != "open" || f.Property != id {
					allOpen = false
				}
			}
			if !allOpen {
				violations = append(violations, w)
				continue
			}
			for _, k := range w.Known {
				if knownSeen[k] == nil {
					knownSeen[k] = w
				}
			}
		}
	}
	// paths cut by the wall limit under active known-finding labels: accepted
	// only when every label is an open finding of this property
	for _, j := range jobs {
		for labels, n := range j.TruncatedKnown {
			for _, k := range strings.Split(labels, ",") {
				if f, ok := known[k]; !ok || f.Status != "open" || f.Property != id {
					inconclusive = append(inconclusive, fmt.Sprintf("%s: %d paths hit the wall limit under label %s, which is not an open finding", j.Spec.Name(), n, k))
				} else if knownSeen[k] == nil && len(j.TruncWitness) > 0 {
					knownSeen[k] = j.TruncWitness[0]
				}
			}
		}
	}
	// report
	exit := 0
	var kids []string
	for k := range knownSeen {
		kids = append(kids, k)
	}
	sort.Strings(kids)
	for _, k := range kids {
		fmt.Printf("KNOWN-FINDING: property=%s %s %s\n", id, k, known[k].What)
	}
	os.MkdirAll(filepath.Join(verifDir, "evidence", "witness"), 0o755)
	if onlyFilter == "" {
		// the witness directory shows the last complete run of this property only
		if old, _ := filepath.Glob(filepath.Join(verifDir, "evidence", "witness", id+"-*.json")); old != nil {
			for _, f := range old {
				os.Remove(f)
			}
		}
	}
	var vpaths []string
	vseen := map[string]bool{}
	for _, w := range violations {
		key := w.Harness + "|" + w.ID + "|" + strings.Join(w.Known, ",")
		if vseen[key] {
			continue
		}
		vseen[key] = true
		p := filepath.Join(verifDir, "evidence", "witness", fmt.Sprintf("%s-%s-%s-%d.json", id, w.Harness, sanitizeFile(w.ID), len(vpaths)))
		b, _ := json.MarshalIndent(w, "", " ")
		os.WriteFile(p, b, 0o644)
		vpaths = append(vpaths, p)
		fmt.Printf("VIOLATION property=%s replay=%s\n", id, p)
		fmt.Printf("  harness=%s assertion=%s known=%v detail=%s\n", w.Harness, w.ID, w.Known, firstLine(w.Detail))
		exit = 1
	}
	if len(inconclusive) > 0 {
		sort.Strings(inconclusive)
		seen := map[string]bool{}
		for _, r := range inconclusive {
			if seen[r] {
				continue
			}
			seen[r] = true
			if len(seen) > 12 {
				break
			}
			fmt.Printf("INCONCLUSIVE property=%s reason=%s\n", id, firstLine(r))
		}
		if exit == 0 {
			exit = 2
		}
	}
	_ = unreproduced
	writeEvidence(pd, *tier, seed, jobs, ws, validated, inconclusive, time.Since(t0), kids, P)
	tot := struct{ paths, completed, q, asserts, disch int }{}
	for _, j := range jobs {
		tot.paths += j.Paths
		tot.completed += j.Completed
		tot.q += j.Queries
		tot.asserts += j.Asserts
		tot.disch += j.Discharged
	}
	fmt.Printf("%s tier=%s jobs=%d paths=%d completed=%d queries=%d assertions=%d discharged=%d replayed=%d/%d violations=%d known=%d wall=%.1fs exit=%d\n",
		id, *tier, len(jobs), tot.paths, tot.completed, tot.q, tot.asserts, tot.disch, validated, len(ws), len(vpaths), len(kids), time.Since(t0).Seconds(), exit)
	return exit
}

func sanitizeFile(s string) string {
	var sb strings.Builder
	for _, c := range s {
		if c >= 'a' && c <= 'z' || c >= 'A' && c <= 'Z' || c >= '0' && c <= '9' || c == '-' || c == '_' {
			sb.WriteRune(c)
		} else {
			sb.WriteByte('_')
		}
	}
	return sb.String()
}

func firstLine(s string) string {
	if k := strings.IndexByte(s, '\n'); k >= 0 {
		s = s[:k]
	}
	if len(s) > 300 {
		s = s[:300]
	}
	return s
}

func writeEvidence(pd *propDef, tier string, seed int64, jobs []*interp.Job, ws []*interp.Witness, validated int,
	inconclusive []string, wall time.Duration, known []string, P *interp.Program) {
	states, trans, queries, sat, unsat, unknown := 0, int64(0), 0, 0, 0, 0
	asserts, disch, trunc, truncKnown := 0, 0, 0, 0
	var stime time.Duration
	funcs := map[string]bool{}
	models := map[string]int{}
	var jobSummaries []map[string]interface{}
	var samples []interface{}
	nviol := 0
	for _, j := range jobs {
		states += j.Completed + j.AssumeEnded
		trans += j.Decisions
		queries += j.Queries
		sat += j.SolverSat
		unsat += j.SolverUnsat
		unknown += j.SolverUnknown
		stime += j.SolverTime
		asserts += j.Asserts
		disch += j.Discharged
		trunc += j.Truncated
		for _, n := range j.TruncatedKnown {
			truncKnown += n
		}
		for f := range j.Funcs {
			funcs[f] = true
		}
		for m, n := range j.Models {
			models[m] += n
		}
		js := map[string]interface{}{
			"harness": j.Spec.Name(), "paths": j.Paths, "completed": j.Completed, "assume_ended": j.AssumeEnded,
			"decisions": j.Decisions, "ssa_steps": j.Steps, "assertions": j.Asserts, "discharged_unsat": j.Discharged,
			"failing_witnesses": len(j.Fails), "queries": j.Queries, "solver_time_s": j.SolverTime.Seconds(),
		}
		if len(j.Notes) > 0 {
			js["notes"] = j.Notes
		}
		jobSummaries = append(jobSummaries, js)
	}
	for k, w := range ws {
		if k < 12 {
			samples = append(samples, w)
		}
		if w.Event != "reach" && len(w.Known) == 0 {
			nviol++
		}
	}
	if len(samples) == 0 {
		samples = append(samples, map[string]string{"note": "no witness produced"})
	}
	var fl []string
	for f := range funcs {
		fl = append(fl, f)
	}
	sort.Strings(fl)
	var ml []string
	for m := range models {
		ml = append(ml, m)
	}
	sort.Strings(ml)
	if states == 0 {
		states = 0
	}
	cov := map[string]interface{}{
		"states":                        states,
		"transitions":                   trans,
		"traces_validated_against_impl": validated,
		"samples":                       samples,
		"exhaustive":                    len(inconclusive) == 0,
		"explanation":                   pd.Explain,
		"functions_encoded":             fl,
		"stdlib_models_used":            ml,
		"bounds":                        pd.Bounds(tier),
		"outside_claim":                 pd.Outside,
		"queries":                       queries,
		"sat":                           sat,
		"unsat":                         unsat,
		"unknown":                       unknown,
		"solver_time_s":                 stime.Seconds(),
		"solver":                        solverDesc(),
		"assertions":                    asserts,
		"assertions_discharged_unsat":   disch,
		"truncated_paths":               trunc,
		"paths_cut_by_wall_limit_under_open_findings": truncKnown,
		"inconclusive":              inconclusive,
		"known_findings_reproduced": known,
		"jobs":                      jobSummaries,
		"witnesses_replayed":        len(ws),
	}
	if P != nil {
		cov["ssa_load_s"] = P.LoadTime.Seconds()
		cov["package_init_ssa_steps"] = P.InitSteps
	}
	if pd.Level == "translation_validation" {
		cov["programs"] = pd.Programs(jobs)
		cov["disagreements_checked"] = asserts
	}
	if states == 0 || trans == 0 {
		// schema needs >=1 for a model_checking claim; an empty run is no evidence
		cov["evaluations"] = 0
	}
	ev := map[string]interface{}{
		"property_id": pd.ID,
		"tier":        tier,
		"seed":        seed,
		"level":       pd.Level,
		"coverage":    cov,
		"assumptions": pd.Assumptions,
		"wall_s":      wall.Seconds(),
		"violations":  nviol,
	}
	os.MkdirAll(filepath.Join(verifDir, "evidence"), 0o755)
	b, _ := json.MarshalIndent(ev, "", " ")
	name := pd.ID + ".json"
	if onlyFilter != "" {
		// a filtered development run does not overwrite the evidence of the registered command
		name = pd.ID + ".partial.json"
	}
	os.WriteFile(filepath.Join(verifDir, "evidence", name), b, 0o644)
}
